"""Regenerates /verif/MANIFEST.json from the table below (python3 -m vf.mkmanifest)."""
import json
import os

VERIF = os.path.dirname(os.path.dirname(os.path.abspath(__file__)))

E2 = 'E2: symbolic execution of the real Python source of /repo (proxy objects + import-time AST pass) with z3'
E1 = 'E1: miasmX IR -> z3 bit-vector terms'

CHECKS = {
    'C14': dict(
        level='model_checking',
        technique='symbolic execution of the real modint methods (z3 bit-vectors), per-path SMT validity of an independent arithmetic statement',
        text='For every ordered pair of fixed-width classes (and class x plain int, direct and reflected) and every '
             'operator, the real method is executed on operands in an arbitrary valid state (symbolic .arg over the '
             'full range of the class); on every path the solver proves result class and result value equal the exact '
             'integer result reduced into the class range, for all operand values within the stated bounds. '
             'Bounded model checking of straight-line code: the bound is on plain-int magnitudes, shift counts and exponents.',
        note='Trusted: z3 5.1.0; the SInt proxy (differentially tested against Python ints); CPython int semantics. '
             'Bounds: plain-int operands and constructor arguments |v| <= 2^(n+3); shift counts 0..2n; divisor != 0; a ** e with a symbolic exponent 0 <= e <= 2^n at 1 and 8 bits (plain integer or same class; wider classes: concrete exponents 0..3 only - z3 flattens the nested products of square-and-multiply).',
        design='5/C14', engine='E2'),
    'C18': dict(
        level='model_checking',
        technique='symbolic execution of the real PowerPC matcher/decoder/encoder on one symbolic 32-bit word; per-path SMT (z3)',
        text='The whole 32-bit word is a single symbolic integer. Every path of the real class matcher, field parser and '
             're-encoder is explored (all 64 primary opcodes = all 2^32 words, in both tiers); '
             'on each path the solver proves: at most one class claims the word, and bin() == word for every word of the path. '
             'Mnemonic-vs-architecture and the render/assemble text fixpoint are decided at witnesses only (path witness vs llvm-mc; '
             'smallest and largest word of each path through str()/asm(), plus a sweep of every variable field of <= 10 bits of every class over all its values) and are labelled so.',
        note='Trusted: z3, the SInt proxy, llvm-mc 14 as arbiter of mnemonics at witnesses (alias table in c18.py). '
             'Text clause is witness-level, not for every word.',
        design='5/C18', engine='E2'),
    'C05': dict(
        level='translation_validation',
        technique='symbolic execution of the real expr_simp with all constants symbolic (E2) + SMT equivalence of input and output IR (E1, z3)',
        text='Per expression shape (templates for every rewrite rule, all depth-1 shapes, depth-2 shapes: sampled in quick, all in thorough; '
             'widths 1/8/16/32/64) every constant is a symbolic integer flowing through the real simplifier; on every path the solver proves '
             'width(out)=width(in) and E1(out)=E1(in) for all valuations of identifiers/memory and all constants of the path. '
             'Termination: every path must return within 10 s of interpreter time; a path that does not is replayed concretely.',
        note='Trusted: z3, the SInt proxy, E1 (vf/ir2smt.py; the standard bit-vector meaning of DESIGN section 4). Bounds: depth <= 2 (+templates), arity <= 4, 3 identifiers.',
        design='5/C05', engine='E2+E1'),
    'C13': dict(
        level='model_checking',
        technique='symbolic execution of the real expr_simp on permuted/re-associated operand lists with symbolic constants; structural equality of outputs proved as an SMT formula (z3)',
        text='Partial claim. (i) idempotence: expr_simp(copy(expr_simp(e))) is structurally equal to expr_simp(e); (ii) order/nesting insensitivity: '
             'for permutations and re-associations of the operands of + * ^ & | nodes the outputs are structurally equal - both for all values of '
             'the constants (equality of two outputs whose constants are terms over the symbolic inputs is a z3 formula proved valid under the joint '
             'path condition). (iii) string-hash independence, partial: with hash(str) one unconstrained symbolic integer per distinct string in every hash() call written outside a __hash__ method (and in what such a call reaches), expr_simp yields one result over all paths on those integers, on operand families that differ only in an identifier name / segment selector / address and on a sample of the permutation bases; a counterexample is replayed in fresh interpreters under PYTHONHASHSEED 0..31. Iteration order of CPython sets across processes is not modelled (the simplifier iterates over no set; rendered instructions and state dumps are outside this clause).',
        note='Trusted: z3, SInt proxy. Bounds: operand pool of 10, arity 2..4, widths 32/8 (quick) or 1..64 (thorough). Hash-seed clause: explicit hash() calls only; set iteration order outside the claim.',
        design='5/C13', engine='E2'),
    'C16': dict(
        level='model_checking',
        technique='E1 dependency queries (two valuations differing in one resource) on the IR of real get_r/get_w; symbolic execution of the real MatchExpr with symbolic constants, SMT validity of binding reproduction',
        text='Read sets: for every free identifier and every memory cell of E1(e) not covered by e.get_r(mem_read=True) the solver must answer unsat to '
             '"two valuations differing only there give different values" (segmented memory = address + uninterpreted segbase(selector)); get_w names the destination. '
             'Matching: e := pattern[binding] with symbolic constants; the real MatchExpr must succeed, bind every wildcard, and substituting the result into the '
             'pattern must be structurally equal to e for all constants (SMT); mutated non-instances (operator changed, arity changed, a pattern constant perturbed by a symbolic non-zero delta) must fail.',
        note='Trusted: z3, SInt proxy, E1. Bounds: depth <= 2 shapes; 60 patterns x 3/9 bindings.',
        design='5/C16', engine='E1+E2'),
    'C15': dict(
        level='model_checking',
        technique='symbolic execution of the real __eq__/__hash__/copy/visit/replace_expr/canonize with symbolic node fields and constants; law instances proved per path by z3; value clauses via E1',
        text='Equality laws (reflexive, symmetric, transitive, != is the negation, e==f => hash(e)==hash(f)) on 18 node builders covering all eight node classes with '
             'symbolic sizes, slice/compose bounds and constants, plus concrete one-field perturbations; hash of an integer is an uninterpreted function of its value. '
             'copy()/visit(identity) equal the original and copy shares no node. Value clauses with symbolic constants: e==f implies equal value, canonize() preserves E1 value, '
             'replace_expr({s:r}) equals a reference tree substitution under E1 for every sub-expression s; maps of two entries over pairs of disjoint, provably different sub-expressions (fresh identifiers, reversed insertion order, replacements that mention the other key, exchange of the two sub-terms) equal the reference SIMULTANEOUS substitution.',
        note='Trusted: z3, SInt proxy, E1, CPython str hash. Bounds: sizes 1..128, bounds 0..64, depth <= 2 shapes, replacement maps of size 1 (every sub-expression) and 2 (<= 6 pairs per shape quick / 20 thorough).',
        design='5/C15', engine='E2+E1'),
    'C06': dict(
        level='translation_validation',
        technique='symbolic execution of the real eval_abs.eval_expr with symbolic constants and bindings (E2) + SMT equality with a reference substitution under E1 (z3)',
        text='Per (expression shape, binding kind per identifier, binding kind of its memory cells): the real eval_expr runs on symbolic constants in a state binding identifiers '
             'and exact-address memory cells to symbolic constants / expressions / nothing; on every path the solver proves E1(result) = E1(reference simultaneous substitution) for all '
             'valuations of the free symbols and all constants, the same width, and that all-constant inputs give an ExprInt. Exceptions other than the documented ValueError are violations keyed by operator.',
        note='Trusted: z3, SInt proxy, E1 incl. x86 helper operators, the 40-line reference substitution. Bounds: templates + depth-1 shapes + lifter operators; widths 32/8 plus the n-ary arithmetic shapes at 16/64 (quick), 8..64 (thorough); overlap is C07.',
        design='5/C06', engine='E2+E1'),
    'C07': dict(
        level='translation_validation',
        technique='symbolic execution of the real eval_instr/eval_expr memory model with symbolic store/load offsets (E2) + SMT equality with an array store chain (E1, z3)',
        text='Memory histories: 1-2 stores (3 in thorough; in both tiers 3 stores for six width mixes with the last, wider store at the first store\'s address) through the real eval_instr at base+offset with SYMBOLIC offsets, then a load through the real eval_expr; on every path '
             'the solver proves (a) the pool denotes the same byte array as the sequential store chain (for an arbitrary probe address, no two cells overlap) and (b) E1(load) equals the load '
             'on the store chain - for all offsets of the path, all stored values, all initial memory, base constant or symbolic register.',
        note='Trusted: z3 (arrays + bit-vectors), SInt proxy, E1. Bounds: widths 8/16/32, first store at base+8, other offsets in a window of 12-23 bytes; '
             'programs: seed-drawn straight-line sequences of 1-12 instructions vs the sequential composition under E1; rep with concrete ecx 0..4; repe/repne cmps/scas with symbolic memory through the real emulator (E2), final ecx/esi/edi/zf == the architectural loop.',
        design='5/C07', engine='E2+E1'),
    'C12': dict(
        level='model_checking',
        technique='symbolic execution of the real expr_simp/eval_expr/eval_instr with the per-node memo flags replaced by symbolic booleans (one-step obligation instead of histories) + structural frame-condition monitor; symbolic execution of the real decoder/lifter/assembler twice per path with SMT equality of the two results and table fingerprints; z3',
        text='Partial claim. No histories are enumerated: (b) the memo flags is_eval/simp are replaced, by a harness-side descriptor, with one symbolic boolean per node constrained only by what an honest '
             'earlier call can leave behind; the result of the probe call under ANY admissible flags must be structurally equal (SMT) to its result with all flags clear, for all constants; a counterexample is turned '
             'into a concrete two-call history and replayed. (a) frame condition on every path incl. raising ones: arguments, machine state and other machines structurally unchanged. '
             '(c) dis / lift / asm: per path of the symbolic decoder exploration, the same symbolic bytes are decoded and lifted twice around a fixed interleaving of other calls (other decodes incl. a truncated one, assemblies incl. raising ones): '
             'the second instruction and assignment list equal the first for all byte values (SMT), the byte container and the instruction object are unchanged, and a deep fingerprint of the opcode trie, mnemonic objects, ModRM/SIB, register and lifter tables is unchanged after every row; '
             'the same for asm(line) with symbolic numbers; history pairs: a first line introduces an operand text never printed before in the process (fresh numerals for the symbolic number), a second, different instruction with the same operand text must give exactly the candidates it gives on an operand text of its own, for all values of the number (49 first lines x 6 operand texts x 2-4 second lines); at every path witness (concrete, labelled so) the instruction is rendered twice in both syntaxes: equal texts, instruction object unchanged. Not addressed: on-disk PLY parser tables, general histories up to 50 calls.',
        note='Trusted: z3, SInt proxy, the admissibility predicate for memo flags (stated in evidence bounds). Clauses about the parser-table cache directory and CPython heap aliasing are outside the claim.',
        design='5/C12', engine='E2'),
    'C17': dict(
        level='model_checking',
        technique='symbolic execution of the real decoder and getnextflow/getdstflow with a symbolic 32-bit stream offset and symbolic displacement bytes; SMT validity of the architectural target formula (z3)',
        text='Arithmetic: every relative jcc/jmp/call/loop*/jecxz row is decoded from a stream positioned at a SYMBOLIC offset with symbolic displacement bytes; the solver proves '
             'next = offset + length, the displacement width is the architectural one (rel8 / operand-size), and dst = (offset + length + sext(disp)) mod 2^opsize for all offsets (incl. near 2^32) and displacements. '
             'Classification: on every path of the decoder exploration over the live opcode trie (symbolic bytes) the reported (breakflow, splitflow, dstflow) equals the architectural class of the decoded mnemonic.',
        note='Trusted: z3, SInt/SBytes proxies, the 40-line classification table by mnemonic family (sys* excluded as the property says).',
        design='5/C17', engine='E2'),
    'C01': dict(
        level='model_checking',
        technique='symbolic execution of the real x86 decoder on symbolic byte strings (z3): per-path SMT validity of "every reported immediate/displacement is a standard encoding of instruction bytes"; GNU objdump as arbiter at path witnesses',
        text='Hybrid. Solver level: for the rows of the live opcode trie x prefix sets, every immediate and displacement of the decoded instruction is proved, for ALL byte values of the path, to be the '
             'zero- or sign-extension of 1, 2 or 4 consecutive little-endian instruction bytes, and length/raw bytes are those consumed. Arbiter level (labelled): at up to three witnesses per path '
             '(model, minimal, maximal free bytes) GNU objdump must report the same length, mnemonic and operands after both Intel renderings are parsed into one canonical operand structure.',
        note='Trusted: z3, proxies, objdump 2.40 as the IA-32 reference at witnesses, the operand canonicaliser (vf/oracles/objdump.py). Strings objdump rejects or reads with a superfluous segment prefix are outside the quantifier (a repeated size prefix is not: prefix sets 66 66 / 67 67 are explored). '
             'Agreement with the architecture is decided per path at witnesses only, not for every byte value.',
        design='5/C01', engine='E2'),
    'C02': dict(
        level='model_checking',
        technique='symbolic execution of the real x86 assembler (parser + encoder) on real text with every number symbolic (z3): per-path SMT validity of "the candidate bytes carry the value"; GNU as + objdump as reference at path witnesses',
        text='Lines are generated from operand-shape classes (register classes, immediates, memory forms x size keywords) and filtered by GNU as for validity; every NUMBER token is a symbolic integer after the real lexer. '
             'On every path and for every candidate b the solver proves, for all values of the path, that every number of the line reappears in the operands the real decoder reads from b and vice versa: n == zext(field) or n == sext(field) (mod 2^32), '
             'i.e. no silent truncation or sign change. At path witnesses (arbiter, labelled) objdump must read b as one instruction of len(b) bytes whose canonical form equals that of the reference encoding objdump(gas(line)).',
        note='Trusted: z3, proxies, GNU as/objdump 2.40, the operand canonicaliser. Bounds: one line = one mnemonic with <= 3 operands, numbers in [0, 2^32); AT&T lines only through the transliteration of C19; relative-branch lines excluded (C17).',
        design='5/C02', engine='E2'),
    'C03': dict(
        level='model_checking',
        technique='same symbolic run of the real assembler as C02; per path the real disassembler and re-assembler are run on the candidate with symbolic number fields; fixpoint membership decided per path (z3)',
        text='Forward (solver): for every accepted line class and every candidate b with symbolic numbers the real decoder accepts b and consumes exactly len(b) bytes, for all number values of the path. '
             'Text layer (witnesses, labelled): asm(str(dis(b))) contains b at the path witness. Converse (solver): on every path of the symbolic decoder exploration the real Intel rendering, produced in render mode '
             '(symbolic numbers printed as placeholder numerals, sign by fork), goes through the real parser with the placeholders mapped back to the symbolic values, and the original bytes must be among the candidates for all byte values; '
             'reported only for canonical encodings (objdump\'s text of the bytes, assembled by GNU as, gives the bytes back).',
        note='Trusted: z3, proxies, GNU as as the producer of canonical encodings. Bounds as C02; rendering is concrete per witness (CPython string formatting is not encoded).',
        design='5/C03', engine='E2'),
    'C04': dict(
        level='translation_validation',
        technique='E1 translation of the real lifter output for symbolically decoded instructions + SMT equivalence (z3) with an independent executable IA-32 reference (vf/x86spec/sem.py) that is itself validated against the host CPU',
        text='For every integer-core row of the opcode trie (8/16/32-bit, register/immediate/memory forms, prefixes 66/67) the real decoder and lifter produce the assignment list; under E1, for ALL initial register, flag and memory values, '
             'the solver proves equality with the reference semantics on general registers, architecturally defined flags (definedness conditions per instruction), written memory bytes and eip. '
             'A solver counterexample is reported only if the host CPU (32-bit process) agrees with the reference and disagrees with miasmX on that state (three-way vote); otherwise it is inconclusive.',
        note='Trusted: z3, E1, the reference semantics (validated each run: ~676 instruction/state pairs, 0 disagreements with the CPU), the host CPU. Bounds: one instruction; ModRM/SIB representatives; no segment bases (flat), no faults other than #DE.',
        design='5/C04', engine='E2+E1'),
    'C08': dict(
        level='model_checking',
        technique='E1 dependency queries (z3): for each decoded instruction, "two pre-states differing in one resource give different reference results" must be unsat for every resource outside the reported read set; writes compared with the reference',
        text='For every integer-core instruction (reference = vf/x86spec/sem.py) each register, flag and memory operand on which the reference result depends (SMT dependency query over all states) must be in get_instr_expr-derived read set; '
             'every resource the reference can modify must be in the write set ("exists a state with post != pre" unsat otherwise); every memory location the reference reads must provably meet an ExprMem of the sets and every location it writes an ExprMem of the write set, in every state. MMX/SSE instructions lifted through the uninterpreted MMX operator: operand inclusion on every decoder path (source operand, address registers, destination, flags of comis/ucomis/ptest) - structural. x87: memory forms of the escape opcodes d8..df on every decoder path: the operand cell is in the read set (loads, arithmetic, compares) or the write set (stores) according to an SDM table keyed by escape byte and ModRM reg field, its address registers and, where consumed, st(0) are read - structural. Partial claim: x87 register-stack forms are not judged.',
        note='Trusted: z3, E1, the validated reference semantics. Bounds: one instruction, flat memory; over-approximation is accepted; self-dependency of conditionally preserved resources excluded.',
        design='5/C08', engine='E2+E1'),
    'C11': dict(
        level='model_checking',
        technique='symbolic execution of the real decoder (symbolic bytes) and lifter; the strict IR type checker of E1 decides well-formedness on every path; flag-width clause discharged by SMT (z3)',
        text='On every decoder path of the rows with lifted semantics (opsize 32 and 16, address-size prefix) the real lifter runs; the result must be a list of ExprAff with register/memory destinations, determinate equal widths as the property states, '
             'slices in range, compose slots tiling; a one-bit flag receiving a wider source requires an SMT proof that the value is always 0 or 1; no identifier is assigned twice and two memory destinations never intersect (SMT). Exceptions from the lifter are violations keyed by exception and mnemonic.',
        note='Trusted: z3, proxies, the strict checker in vf/ir2smt.py. Bounds: as the decoder exploration (11 symbolic bytes, SIB representatives).',
        design='5/C11', engine='E2+E1'),
    'C19': dict(
        level='model_checking',
        technique='symbolic execution of the real x86 assembler on pairs of spellings of one line with shared symbolic numbers; candidate-set equality proved per joint path (z3)',
        text='For each line class and each respelling (letter case, white space, optional %, st vs st(0), negative spelling and n + k*2^32, reordered memory terms, displacement outside brackets, AT&T transliteration, hexadecimal spellings 0x / 0X with lower / upper case digits of the placeholder numeral, which the real lexer converts before it is mapped back to the symbolic number) both spellings go through the real parser and encoder '
             'with the SAME symbolic numbers; on every joint path the two candidate lists must be equal as sets of byte strings for all number values. Prelude pairs: the same equality after another instruction has introduced spelling A\'s operand text (first use in the process).',
        note='Trusted: z3, proxies, the respelling generator (vf/checks/c19.py). Bounds: <= 3 operands, numbers in [0, 2^32), SIB families listed in evidence.',
        design='5/C19', engine='E2'),
    'C09': dict(
        level='model_checking',
        technique='symbolic execution of the real decoder, of the real Intel and AT&T renderers in render mode (symbolic numbers as placeholder numerals) and of the real matching parsers; membership of the original bytes among the candidates as an SMT validity query (z3)',
        text='Partial claim (the miasmX-parser clause). On every path of the symbolic decoder exploration both renderings of the decoded instruction are produced by the real printer with every immediate / displacement symbolic, '
             'each is fed to the matching real parser (asm / asm_att) and the original bytes must be among the candidates for ALL byte values of the path - so operand order, size suffixes, sigils, memory layout and the fsub/fdiv reversal are exercised. '
             'A miss is reported only for canonical encodings: the objdump text of the original bytes at the witness, assembled by GNU as, yields exactly those bytes (a criterion that does not look at the rendering under test). Arbiter level (labelled): at one witness per operand shape, for instructions a compiler emits, GNU as must accept the rendering in the matching syntax mode and objdump must read its encoding as the same instruction as the original bytes.',
        note='Trusted: z3, proxies, render mode (core.render_number; digit-string <-> integer conversion not modelled), GNU as 2.40 as canonicity filter. Bounds: thin ModRM slice, prefix sets (), (66) [+ (67) thorough]; quick: a core list + 12 sampled rows in the thin slice, every other row under () and (66; x87 escape rows excepted) in the thinnest slice.',
        design='5/C09 + 9', engine='E2'),
    'C10': dict(
        level='model_checking',
        technique='symbolic execution of the real x86 decoder on symbolic byte strings (z3): exhaustive path sets per opcode row; witness replay for rendering/truncation/stream clauses',
        text='Decoder: for the rows of the live opcode trie x prefix sets, prefixes||opcode||11 symbolic bytes run through the real x86mnemo.dis; on every path the outcome is None or an instruction, '
             'no exception escapes, 0 < l <= len, no byte at index >= l is read (SBytes read monitor), the reported raw bytes equal the consumed input (SMT). At path witnesses (concrete, labelled so): both renderings, '
             'every strict truncation is absent, stream offsets 0/1/5, and the decoder\'s length is not larger than objdump\'s (over-read). Assembler totality: lines generated from the lexical alphabet (mnemonics, registers, size keywords, punctuation, numbers, names; <= 3 free tokens next to fixed operands), and address expressions of 1 to 3 terms (registers, scaled registers, numbers, names joined by + and -) in 4 (quick) / 8 (thorough) operand contexts, go through the real public asm() with every number symbolic: a list or the documented ValueError on every path.',
        note='Trusted: z3, proxies. Bounds: 11 symbolic bytes, <= 2 prefixes per set incl. doubled size prefixes (66 66, 67 67), SIB restricted to 8 representatives; rendering, truncation, stream and over-read clauses at witnesses only.',
        design='5/C10', engine='E2'),
}

NOT_APPLICABLE = {}

NOT_YET = {}   # id -> reason, for properties whose check is not built yet
HOLD = set()   # built, but known findings not yet adopted: not claimed until a clean run is committed


def main():
    props = [json.loads(l)['id'] for l in open(os.path.join(VERIF, 'properties.jsonl'))]
    checks = []
    for pid in props:
        c = CHECKS.get(pid)
        if not c or pid in HOLD:
            continue
        checks.append({
            'property_id': pid,
            'quick_cmd': './check %s --tier quick' % pid,
            'thorough_cmd': './check %s --tier thorough' % pid,
            'evidence_file': 'evidence/%s.json' % pid,
            'replay_cmd_template': './check --replay {path}',
            'engine': c['engine'],
            'level_claimed': {'category': c['level'], 'text': c['text'], 'design_ref': c['design']},
            'level_note': c['note'],
            'technique': c['technique'],
        })
    na = []
    for pid in props:
        if pid in CHECKS and pid not in HOLD:
            continue
        reason = NOT_APPLICABLE.get(pid) or NOT_YET.get(pid) or \
            'check not built yet in this round (planned in DESIGN.md section 5); nothing is claimed for it'
        na.append({'property_id': pid, 'reason': reason})
    m = {
        'version': 1,
        'setup_cmd': './setup.sh',
        'hooks': {
            'guard': 'MIASMX_VERIF',
            'enable': 'none needed: all instrumentation is applied at import time by /verif (AST pass); the guard is reserved and unused',
            'baseline_off_cmd': 'cd /repo && /venv/bin/python -m pytest -ra -q -p no:cacheprovider --timeout=900 --continue-on-collection-errors',
            'source_commits': [],
            'add_only': True,
        },
        'engines': [
            {'name': 'E2', 'path': 'vf/symex', 'serves_properties': sorted(k for k, v in CHECKS.items() if 'E2' in v['engine']),
             'kind_free_text': E2},
            {'name': 'E1', 'path': 'vf/ir2smt.py', 'serves_properties': sorted(k for k, v in CHECKS.items() if 'E1' in v['engine']),
             'kind_free_text': E1},
        ],
        'checks': checks,
        'not_applicable': na,
        'notes': 'Every check: exit 0 = held on everything explored (KNOWN-FINDING lines for listed defects), exit 1 + VIOLATION line = '
                 'solver counterexample that reproduced on the uninstrumented code, exit 3 = HARNESS-ERROR (model/oracle disagreement, never a violation).',
    }
    with open(os.path.join(VERIF, 'MANIFEST.json'), 'w') as f:
        json.dump(m, f, indent=1)
    print('MANIFEST.json: %d checks, %d not_applicable' % (len(checks), len(na)))


if __name__ == '__main__':
    main()
