#!/usr/bin/env python3
"""usage: mkmeta.py <ID> <first_try:0|1> <needs> <caught_by> [strengthening]  -- writes seeded/<ID>/meta.json, removes the scratch worktree"""
import json, sys, subprocess, os
sid, first, needs, caught = sys.argv[1:5]
st = sys.argv[5] if len(sys.argv) > 5 else None
cid = sid.split('_')[0]
wt = '/tmp/wt_' + sid
first = first == '1'
m = {'breaks': cid, 'needs': needs, 'caught_by': caught, 'detected_first_try': first}
if st:
    m['strengthening'] = st
m['what_was_run'] = [
    'cd <worktree> && PYTHONPATH=<worktree> /venv/bin/python -m pytest -q -p no:cacheprovider  -> 278 passed (with the change)',
    'PYTHONPATH=<worktree> /venv/bin/python demo_seed.py -> exit 1 with the change, exit 0 without',
    'VERIF_REPO=<worktree> ./check %s --tier quick -> exit 1 with VIOLATION lines%s' % (cid, '' if first else '; before the strengthening exit 0'),
]
m['source'] = 'independent sub-agent given only the property text plus a paragraph steering it to one clause of the property (and naming earlier seeds\' ideas to avoid) and a scratch worktree of /repo at 2345ad4'
d = '/verif/seeded/' + sid
os.makedirs(d, exist_ok=True)
json.dump(m, open(d + '/meta.json', 'w'), indent=1)
assert os.path.getsize(d + '/patch.diff') > 0 and os.path.exists(d + '/demo_seed.py'), 'patch/demo missing'
subprocess.call(['git', '-C', '/repo', 'worktree', 'remove', '--force', wt])
print('ok', sid)
