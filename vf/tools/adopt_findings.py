"""Developer helper (never run by a check): after MANUAL triage of the VIOLATION lines of the last run of
<ID>, append them to known_findings.json.  usage: python3 -m vf.tools.adopt_findings C18 [key-prefix ...]"""
import json, sys, os
V = os.path.dirname(os.path.dirname(os.path.dirname(os.path.abspath(__file__))))
pid = sys.argv[1]; prefixes = sys.argv[2:]
ev = json.load(open(os.path.join(V, 'evidence', pid + '.json')))
if ev['coverage'].get('repo_path', '/repo') != '/repo':
    sys.exit('refusing: evidence/%s.json comes from a run against %s, not /repo' % (pid, ev['coverage'].get('repo_path')))
kf = json.load(open(os.path.join(V, 'known_findings.json')))
have = {(e['property'], e['key']) for e in kf['findings']}
n = 0
for d in ev['coverage'].get('violation_details', []):
    if prefixes and not any(d['key'].startswith(p) for p in prefixes): continue
    if (pid, d['key']) in have: continue
    kf['findings'].append({'property': pid, 'key': d['key'], 'desc': d['desc']}); n += 1
json.dump(kf, open(os.path.join(V, 'known_findings.json'), 'w'), indent=1)
print('adopted', n)
