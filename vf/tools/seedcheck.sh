#!/bin/sh
# usage: seedcheck.sh <ID> <worktree> [tier]  -- verify a seeded change and run the matching check against it
ID=$1; WT=$2; TIER=${3:-quick}
D=/verif/seeded/$ID; mkdir -p $D
CID=$(echo $ID | cut -d_ -f1)
cd $WT || exit 2
git diff > $D/patch.diff
cp demo_seed.py $D/demo_seed.py 2>/dev/null
echo "== tests with change"; PYTHONPATH=$WT /venv/bin/python -m pytest -q -p no:cacheprovider 2>&1 | tail -1
echo "== demo with change"; PYTHONPATH=$WT /venv/bin/python demo_seed.py > /tmp/demo_$ID.with 2>&1; echo "exit $?"
git diff > /tmp/seedpatch_$ID.diff; git apply -R /tmp/seedpatch_$ID.diff
echo "== demo without change"; PYTHONPATH=$WT /venv/bin/python demo_seed.py > /tmp/demo_$ID.without 2>&1; echo "exit $?"
git apply /tmp/seedpatch_$ID.diff
echo "== check $ID ($TIER) against the changed tree"
cd /verif && VERIF_REPO=$WT /verif/.venv/bin/python -m vf.checks.$(echo $ID | tr 'A-Z' 'a-z' | cut -d_ -f1) --tier $TIER > /tmp/seedrun_$ID.out 2>&1; echo "check exit $?"
grep -c "^VIOLATION property=$CID" /tmp/seedrun_$ID.out; grep "^  key" /tmp/seedrun_$ID.out | sed "s/^  key=//; s/ .*//" | sort -u > /tmp/seedkeys_$ID.txt; grep "^  key" /tmp/seedrun_$ID.out | head -3 | cut -c1-220; tail -1 /tmp/seedrun_$ID.out
