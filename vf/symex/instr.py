"""Import-time instrumentation of /repo's miasmx modules for E2.

The modules are loaded from their *current* source; a small AST pass redirects the few builtins that
would force a proxy to a concrete value (each redirect is the identity on concrete values).
"""
import ast
import builtins
import importlib.abc
import importlib.machinery
import struct as _struct
import sys

import z3

from . import core
from .core import SInt, SBool, Ctx, PathAbort, mk, bvv

_int = builtins.int
HASH_MODE = ['const']      # 'const' | 'uf' | 'exact' (identity on [0, 2^61-1), uninterpreted elsewhere)
_hash_uf = {}


def _modint():
    return sys.modules.get('miasmx.tools.modint')


# ---------------------------------------------------------------------------------------------
# byte-string proxy
# ---------------------------------------------------------------------------------------------
class SBytes(object):
    """sequence of bytes (python ints or SInt in 0..255); optional symbolic length.

    `maxread` records the highest index ever read through slicing/indexing (over-read monitor)."""

    def __init__(self, items, length=None, root=None, base=0):
        self.items = list(items)
        self.length = length          # None => len(items); else SInt/int <= len(items)
        self.root = root if root is not None else self
        self.base = base
        if root is None:
            self.maxread = -1

    def upper(self):                  # duck-typing used by bin_stream
        raise PathAbort('SBytes.upper')

    def __len__(self):
        if self.length is None:
            return len(self.items)
        return self.length.__index__() if isinstance(self.length, SInt) else self.length

    def sym_len(self):
        return len(self.items) if self.length is None else self.length

    def _touch(self, hi):
        r = self.root
        if hi + self.base > r.maxread:
            r.maxread = hi + self.base

    def __getitem__(self, i):
        n = len(self)
        if isinstance(i, slice):
            start, stop, step = i.start, i.stop, i.step
            if isinstance(start, SInt):
                start = start.__index__()
            if isinstance(stop, SInt):
                stop = stop.__index__()
            start, stop, step = slice(start, stop, step).indices(n)
            if step != 1:
                return SBytes(self.items[:n][i])
            if stop > start:
                self._touch(stop - 1)
            return SBytes(self.items[start:stop], root=self.root, base=self.base + start)
        if isinstance(i, SInt):
            i = i.__index__()
        if i < 0:
            i += n
        if not 0 <= i < n:
            raise IndexError('index out of range')
        self._touch(i)
        return self.items[i]

    def __iter__(self):
        return iter(self.items[:len(self)])

    def __add__(self, o):
        if isinstance(o, SBytes):
            return SBytes(self.items[:len(self)] + o.items[:len(o)])
        if isinstance(o, (bytes, bytearray)):
            return SBytes(self.items[:len(self)] + list(o))
        return NotImplemented

    def __radd__(self, o):
        if isinstance(o, (bytes, bytearray)):
            return SBytes(list(o) + self.items[:len(self)])
        return NotImplemented

    def __eq__(self, o):
        if isinstance(o, (bytes, bytearray)):
            o = SBytes(list(o))
        if not isinstance(o, SBytes):
            return NotImplemented
        if len(self) != len(o):
            return False
        r = True
        for a, b in zip(self.items, o.items):
            e = (a == b)
            if e is False:
                return False
            if e is True:
                continue
            r = e if r is True else core.mk_bool(z3.And(r.t, e.t))
        return r

    def __ne__(self, o):
        r = self.__eq__(o)
        if r is NotImplemented:
            return r
        return core.sym_not(r)

    def __hash__(self):
        return 0

    def __repr__(self):
        return '<SBytes %d>' % len(self.items)

    def terms(self):
        return [core.term_of(x) for x in self.items]


# ---------------------------------------------------------------------------------------------
# runtime shims
# ---------------------------------------------------------------------------------------------
def sym_int(x=0, *a, **k):
    if not a and not k:
        if isinstance(x, SInt):
            return x
        if isinstance(x, SBool):
            return SInt.of_bool(x)
        m = _modint()
        if m is not None and isinstance(x, m.moduint) and isinstance(x.arg, (SInt, SBool)):
            return sym_int(x.arg)
    return _int(x, *a, **k)


def sym_type(*a):
    if len(a) == 1:
        if isinstance(a[0], SInt):
            return _int
        if isinstance(a[0], SBool):
            return bool
        if isinstance(a[0], SBytes):
            return bytes
    return builtins.type(*a)


def sym_isinstance(x, c):
    if isinstance(x, SInt):
        return builtins.isinstance(0, c)
    if isinstance(x, SBool):
        return builtins.isinstance(True, c)
    return builtins.isinstance(x, c)


def sym_ord(x):
    if isinstance(x, SBytes):
        if len(x) != 1:
            raise TypeError('ord() expected a character, but string of length %d found' % len(x))
        x._touch(0)
        return x.items[0]
    return builtins.ord(x)


# hash of a str: 'real' = the interpreter's, 'sym' = one unconstrained symbolic integer per distinct string (string-hash
# randomisation as a quantified variable).  Only hash() calls written outside a __hash__ method body ("explicit" ones) and
# whatever they reach see the symbolic value: a __hash__ method entered directly by the interpreter (dict / set protocol)
# must return a real int.
STR_HASH = ['real']
_explicit = [0]


def sym_hash(x):
    _explicit[0] += 1
    try:
        return _sym_hash(x)
    finally:
        _explicit[0] -= 1


def sym_hash_inner(x):
    return _sym_hash(x)


def _sym_hash(x):
    if isinstance(x, str) and STR_HASH[0] == 'sym' and _explicit[0] > 0 and core.Ctx.cur is not None:
        return SInt.var('strhash:' + x, -(1 << 62), 1 << 62)
    if isinstance(x, (SInt, SBool)) or (isinstance(x, _int) and not isinstance(x, bool)):
        if HASH_MODE[0] == 'const':
            return 0
        if HASH_MODE[0] == 'exact':
            # CPython: hash(n) == n for 0 <= n < 2**61 - 1 (an uninterpreted function would admit models no real int realises)
            if isinstance(x, _int) and not isinstance(x, SInt):
                return builtins.hash(x)
            if isinstance(x, SBool):
                return SInt.of_bool(x)
            if x.lo is not None and x.lo >= 0 and x.hi < (1 << 61) - 1:
                return x
        # uninterpreted function of the value
        f = _hash_uf.get(Ctx.W)
        if f is None:
            f = _hash_uf[Ctx.W] = z3.Function('pyhash', z3.BitVecSort(Ctx.W), z3.BitVecSort(Ctx.W))
        if isinstance(x, SInt):
            x.need_exact('hash')
        return SInt(f(core.term_of(x)))
    if x is None or isinstance(x, (str, bytes, tuple, float, frozenset, type)):
        return builtins.hash(x)
    h = getattr(type(x), '__hash__', None)
    if h is None:
        raise TypeError('unhashable type: %r' % type(x).__name__)
    if h is object.__hash__:
        return builtins.hash(x)
    return h(x)      # may be an SInt in 'uf' mode; builtins.hash() would reject that


def sym_len(x):
    if isinstance(x, SBytes):
        return x.sym_len() if False else len(x)
    return builtins.len(x)


def sym_hex(x):
    if isinstance(x, SInt):
        if getattr(Ctx.cur, 'render_map', None) is not None:
            return core.render_number(x, 'x', alt=True)
        return '<symhex>'
    return builtins.hex(x)


class SBinStr(object):
    """the text bin(x) of a symbolic integer: only the population count is modelled (bin(x).count('1'))"""

    def __init__(self, x):
        self.x = x

    def count(self, ch, *rest):
        if ch != '1' or rest:
            raise PathAbort("bin(sym).count(%r)" % (ch,))
        x = self.x
        x.need_exact('bin')
        mag = z3.If(x.t < 0, -x.t, x.t)             # bin() prints the magnitude after an optional '-'
        W = Ctx.W
        tot = bvv(0)
        for i in range(W):
            tot = tot + z3.ZeroExt(W - 1, z3.Extract(i, i, mag))
        hi = max(abs(x.lo), abs(x.hi)).bit_length()
        return mk(tot, 0, hi)

    def __getattr__(self, name):
        raise PathAbort('bin(sym).%s' % name)


def sym_bin(x):
    if isinstance(x, SInt):
        return SBinStr(x)
    return builtins.bin(x)


def sym_abs(x):
    return builtins.abs(x)


def sym_range(*a):
    return builtins.range(*[(v.__index__() if isinstance(v, SInt) else v) for v in a])


_GROUPS = {}


def _group_key(v):
    if isinstance(v, dict):
        try:
            return ('d', tuple(sorted((repr(k), repr(x)) for k, x in v.items())))
        except Exception:
            return ('i', id(v))
    if v is None or isinstance(v, (_int, str, bool, float)):
        return ('v', type(v).__name__, v)
    return ('i', id(v))


def sym_getitem(a, i):
    if isinstance(i, SInt) and isinstance(a, (list, tuple)):
        i.need_exact('subscript')
        n = len(a)
        eng = Ctx.cur
        if n <= 8 and i.lo >= 0 and i.hi < n and all(isinstance(x, (_int, SInt)) and not isinstance(x, bool) for x in a):
            # small integer table: a value-level if-then-else instead of a fork
            t = core.term_of(a[n - 1])
            for k in range(n - 2, -1, -1):
                t = z3.If(i.t == bvv(k), core.term_of(a[k]), t)
            los = [x.lo if isinstance(x, SInt) else x for x in a]
            his = [x.hi if isinstance(x, SInt) else x for x in a]
            if any(v is None for v in los):
                return mk(t)
            return mk(t, min(los), max(his))
        ent = _GROUPS.get(id(a))
        if ent is None or ent[0] is not a or ent[1] != n:
            groups = {}
            order = []
            for k in range(n):
                g = _group_key(a[k])
                if g not in groups:
                    groups[g] = []
                    order.append(g)
                groups[g].append(k)
            cls = [groups[g] for g in order]
            v2c = {}
            for ci, ks in enumerate(cls):
                for kk in ks:
                    v2c[kk] = ci
            ent = (a, n, cls, v2c)
            if isinstance(a, list) and n >= 16:
                _GROUPS[id(a)] = ent          # static tables: keep (the reference pins the id)
        classes = ent[2]
        t = i.t
        nc = len(classes)

        def cond_of(k):
            if k < nc:
                return _in_set(t, classes[k])
            if k == nc:
                return z3.Or(t < bvv(-n), t >= bvv(n))
            return z3.And(t < bvv(0), t >= bvv(-n))
        v2c = ent[3]

        def class_of_value(v):
            if 0 <= v < n:
                return v2c[v]
            return nc if (v >= n or v < -n) else nc + 1
        k = eng.fork_classes(t, nc + 2, cond_of, class_of_value)
        if k == nc:
            raise IndexError('list index out of range')
        if k == nc + 1:
            return a[i.__index__()]
        return a[classes[k][0]]
    if isinstance(i, SInt) and isinstance(a, dict):
        return a[i.__index__()]
    if isinstance(i, SInt) and isinstance(a, (str, bytes)):
        return a[i.__index__()]
    if isinstance(i, SBool) and isinstance(a, (list, tuple)):
        return a[1] if bool(i) else a[0]
    return a[i]


def _in_set(t, ks):
    """compact membership condition: union of ranges"""
    ks = sorted(ks)
    parts = []
    s = p = ks[0]
    for k in ks[1:]:
        if k == p + 1:
            p = k
            continue
        parts.append((s, p))
        s = p = k
    parts.append((s, p))
    cs = []
    for a, b in parts:
        cs.append(t == bvv(a) if a == b else z3.And(t >= bvv(a), t <= bvv(b)))
    return cs[0] if len(cs) == 1 else z3.Or(*cs)


_DIRECTIVE = None


def _render_format(a, args):
    """'%'-formatting with symbolic numbers in render mode (see core.render_number)"""
    global _DIRECTIVE
    import re
    if _DIRECTIVE is None:
        _DIRECTIVE = re.compile(r'%([-#0 +]*)(\d+)?(?:\.(\d+))?([sdxXiuorc%])')
    out = []
    pos = 0
    k = 0
    for m_ in _DIRECTIVE.finditer(a):
        out.append(a[pos:m_.start()])
        pos = m_.end()
        flags, width, prec, conv = m_.group(1), m_.group(2), m_.group(3), m_.group(4)
        if conv == '%':
            out.append('%')
            continue
        x = args[k]
        k += 1
        if _has_sym(x):
            m = _modint()
            if m is not None and isinstance(x, m.moduint):
                if conv in 'sr':
                    txt = builtins.str(x) if conv == 's' else builtins.repr(x)
                else:
                    txt = core.render_number(x.arg, conv, alt='#' in flags, plus='+' in flags)
            elif conv in 'sr':
                txt = builtins.str(x)
            elif conv == 'c':
                raise core.PathAbort('%c of a symbolic value')
            else:
                txt = core.render_number(x, conv, alt='#' in flags, plus='+' in flags)
            if width:
                txt = ('%' + ('-' if '-' in flags else '') + width + 's') % txt
            out.append(txt)
        else:
            out.append(('%' + flags + (width or '') + ('.' + prec if prec else '') + conv) % (x,))
    out.append(a[pos:])
    if k != len(args):
        raise TypeError('not all arguments converted during string formatting')
    return ''.join(out)


def sym_mod(a, b):
    if isinstance(a, str):
        args = b if isinstance(b, tuple) else (b,)
        if any(_has_sym(x) for x in args) and getattr(Ctx.cur, 'render_map', None) is not None:
            return _render_format(a, args)
        if any(_has_sym(x) for x in args):
            Ctx.cur.stats['sym_format'] = Ctx.cur.stats.get('sym_format', 0) + 1
            if isinstance(b, tuple):
                b = tuple(_fmt_safe(x) for x in b)
            else:
                b = _fmt_safe(b)
            # %d/%x of a placeholder string would fail: turn numeric directives into %s
            import re
            a2 = re.sub(r'%([-#0 +]*)(\d+)?(?:\.\d+)?[dxXiuo]', lambda m_: '%s', a)
            try:
                return a2 % b
            except Exception:
                return '<symfmt>'
    return a % b


def _has_sym(x):
    if isinstance(x, (SInt, SBool, SBytes)):
        return True
    m = _modint()
    if m is not None and isinstance(x, m.moduint) and isinstance(x.arg, (SInt, SBool)):
        return True
    return False


def _fmt_safe(x):
    if _has_sym(x):
        return '<sym>'
    return x


class SymStruct(object):
    error = _struct.error
    calcsize = staticmethod(_struct.calcsize)

    @staticmethod
    def unpack(fmt, data):
        if not isinstance(data, SBytes):
            return _struct.unpack(fmt, data)
        f = fmt.lstrip('<=@')
        if fmt[:1] in '>!' or len(f) != 1 or f not in 'bBhHiIlLqQ':
            raise PathAbort('struct.unpack(%r) on symbolic bytes' % fmt)
        n = _struct.calcsize(f)
        if len(data) != n:
            raise _struct.error('unpack requires a buffer of %d bytes' % n)
        if n:
            data._touch(n - 1)
        w = Ctx.W
        t = None
        conc = True
        for k, b in enumerate(data.items[:n]):
            if isinstance(b, SInt):
                conc = False
        if conc:
            return _struct.unpack(fmt, bytes(data.items[:n]))
        t = z3.Concat(*[z3.Extract(7, 0, core.term_of(b)) for b in reversed(data.items[:n])]) if n > 1 \
            else z3.Extract(7, 0, core.term_of(data.items[0]))
        return (SInt.of_bv(t, signed=f.islower()),)

    @staticmethod
    def pack(fmt, *vals):
        if not any(_has_sym(v) for v in vals):
            return _struct.pack(fmt, *vals)
        f = fmt.lstrip('<=@')
        if fmt[:1] in '>!' or len(f) != 1 or f not in 'bBhHiIlLqQ' or len(vals) != 1:
            raise PathAbort('struct.pack(%r) on symbolic value' % fmt)
        v = vals[0]
        m = _modint()
        if m is not None and isinstance(v, m.moduint):
            v = v.arg            # struct uses __index__/__int__ of the object
        v = sym_int(v)
        n = _struct.calcsize(f)
        v.need_exact('struct.pack')
        lo, hi = (-(1 << (8 * n - 1)), (1 << (8 * n - 1)) - 1) if f.islower() else (0, (1 << (8 * n)) - 1)
        if not (v.lo >= lo and v.hi <= hi):
            if not Ctx.cur.branch(z3.And(v.t >= bvv(lo), v.t <= bvv(hi))):
                raise _struct.error('argument out of range')
        items = [SInt.of_bv(z3.Extract(8 * k + 7, 8 * k, v.t)) for k in range(n)]
        return SBytes(items)


def sym_is(x, const):
    if isinstance(x, SBool):
        return bool(x) is const
    return x is const


SHIMS = {
    '__sym_is__': sym_is,
    '__sym_int__': sym_int,
    '__sym_type__': sym_type,
    '__sym_isinstance__': sym_isinstance,
    '__sym_ord__': sym_ord,
    '__sym_hash__': sym_hash,
    '__sym_hash_inner__': sym_hash_inner,
    '__sym_hex__': sym_hex,
    '__sym_bin__': sym_bin,
    '__sym_getitem__': sym_getitem,
    '__sym_mod__': sym_mod,
    '__sym_struct__': SymStruct,
    '__sym_range__': sym_range,
}


# ---------------------------------------------------------------------------------------------
# AST pass + import hook
# ---------------------------------------------------------------------------------------------
_CALLS = {'int': '__sym_int__', 'long': '__sym_int__', 'type': '__sym_type__', 'ord': '__sym_ord__',
          'hash': '__sym_hash__', 'hex': '__sym_hex__', 'bin': '__sym_bin__', 'isinstance': '__sym_isinstance__',
          'range': '__sym_range__'}


class Transformer(ast.NodeTransformer):
    def __init__(self):
        self.fstack = []

    def visit_FunctionDef(self, node):
        self.fstack.append(node.name)
        try:
            self.generic_visit(node)
        finally:
            self.fstack.pop()
        return node

    def visit_Call(self, node):
        self.generic_visit(node)
        if isinstance(node.func, ast.Name) and node.func.id in _CALLS:
            if node.func.id == 'type' and len(node.args) != 1:
                return node
            name = _CALLS[node.func.id]
            if node.func.id == 'hash' and '__hash__' in self.fstack:
                name = '__sym_hash_inner__'
            node.func = ast.Name(id=name, ctx=ast.Load())
        return node

    def visit_Attribute(self, node):
        self.generic_visit(node)
        if isinstance(node.value, ast.Name) and node.value.id == 'struct' and isinstance(node.ctx, ast.Load):
            node.value = ast.Name(id='__sym_struct__', ctx=ast.Load())
        return node

    def visit_Subscript(self, node):
        self.generic_visit(node)
        if isinstance(node.ctx, ast.Load) and not isinstance(node.slice, (ast.Slice, ast.Constant, ast.Tuple)):
            return ast.copy_location(
                ast.Call(func=ast.Name(id='__sym_getitem__', ctx=ast.Load()), args=[node.value, node.slice], keywords=[]),
                node)
        return node

    def visit_Compare(self, node):
        self.generic_visit(node)
        # `x is False` / `x is not True` ...: identity tests against the boolean singletons must see
        # through symbolic truth values
        if len(node.ops) == 1 and isinstance(node.ops[0], (ast.Is, ast.IsNot)) and \
                isinstance(node.comparators[0], ast.Constant) and isinstance(node.comparators[0].value, bool):
            call = ast.Call(func=ast.Name(id='__sym_is__', ctx=ast.Load()),
                            args=[node.left, node.comparators[0]], keywords=[])
            if isinstance(node.ops[0], ast.IsNot):
                call = ast.UnaryOp(op=ast.Not(), operand=call)
            return ast.copy_location(call, node)
        return node

    def visit_BinOp(self, node):
        self.generic_visit(node)
        if isinstance(node.op, ast.Mod):
            # only string formatting needs the shim; numeric % stays native when the left side
            # is obviously numeric
            if isinstance(node.left, ast.Constant) and not isinstance(node.left.value, str):
                return node
            return ast.copy_location(
                ast.Call(func=ast.Name(id='__sym_mod__', ctx=ast.Load()), args=[node.left, node.right], keywords=[]),
                node)
        return node


class Loader(importlib.abc.SourceLoader):
    def __init__(self, fullname, path):
        self.fullname = fullname
        self.path = path

    def get_filename(self, fullname):
        return self.path

    def get_data(self, path):
        with open(path, 'rb') as f:
            return f.read()

    def source_to_code(self, data, path, *, _optimize=-1):
        tree = ast.parse(data, path)
        tree = Transformer().visit(tree)
        ast.fix_missing_locations(tree)
        return compile(tree, path, 'exec', dont_inherit=True)

    def exec_module(self, module):
        module.__dict__.update(SHIMS)
        super().exec_module(module)


class Finder(importlib.abc.MetaPathFinder):
    def find_spec(self, fullname, path, target=None):
        if not (fullname == 'miasmx' or fullname.startswith('miasmx.')):
            return None
        spec = importlib.machinery.PathFinder.find_spec(fullname, path)
        if spec is None or not spec.origin or not spec.origin.endswith('.py'):
            return spec
        spec.loader = Loader(fullname, spec.origin)
        return spec


_installed = [False]


def install():
    """must be called before any miasmx import"""
    if _installed[0]:
        return
    assert not any(m == 'miasmx' or m.startswith('miasmx.') for m in sys.modules), 'miasmx already imported'
    sys.dont_write_bytecode = True
    sys.meta_path.insert(0, Finder())
    _installed[0] = True


def instrumented_functions():
    """module:function names present in the instrumented modules (for evidence)"""
    out = []
    for name, m in sorted(sys.modules.items()):
        if (name == 'miasmx' or name.startswith('miasmx.')) and getattr(m, '__file__', None):
            out.append(name)
    return out
