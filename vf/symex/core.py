"""E2 core: proxy-object symbolic execution of real Python code with z3 bit-vectors.

SInt denotes a Python integer v with  v == term (mod 2**W)  always, plus an optional conservative
interval [lo, hi] of the *true* value.  The term is *exact* (v == signed(term)) when the interval fits
in W-1 bits signed.  Operations that need the true magnitude require exact operands, otherwise the
path is aborted as inconclusive (never success, never violation).

Exploration: replay-based depth first search; a path is a list of recorded decisions
(('b', cond, taken) | ('c', term, value)); on replay the condition generated must be structurally
identical to the recorded one (else NonDeterminism => harness error).
"""
import builtins
import time
import z3

_int = builtins.int


class PathAbort(BaseException):
    """path abandoned as inconclusive (cap, inexact arithmetic, unsupported operation)"""


class PathTimeout(BaseException):
    """a single path exceeded its wall-clock allowance (termination obligations)"""


class Infeasible(BaseException):
    """an assumption made the path condition unsatisfiable: not a path at all"""


class NonDeterminism(BaseException):
    """replay diverged: harness bug"""


class Ctx:
    cur = None  # the running Engine
    W = 72      # width of SInt terms


def W():
    return Ctx.W


def _fits(lo, hi):
    w = Ctx.W
    return lo is not None and lo >= -(1 << (w - 1)) and hi < (1 << (w - 1))


def bvv(v):
    return z3.BitVecVal(v, Ctx.W)


class SBool(object):
    __slots__ = ('t',)

    def __init__(self, t):
        self.t = t

    def __bool__(self):
        return Ctx.cur.branch(self.t)

    def __repr__(self):
        return '<SBool>'

    def __eq__(self, o):
        if isinstance(o, SBool):
            return SBool(self.t == o.t)
        if isinstance(o, bool):
            return self if o else SBool(z3.Not(self.t))
        if isinstance(o, (_int, SInt)):
            return SInt.of_bool(self) == o
        return NotImplemented

    def __ne__(self, o):
        r = self.__eq__(o)
        if r is NotImplemented:
            return r
        return mk_bool(z3.Not(r.t)) if isinstance(r, SBool) else (not r)

    def __hash__(self):
        return _int(bool(self))

    # int(bool) / arithmetic on booleans
    def __index__(self):
        return _int(bool(self))

    def __int__(self):
        return _int(bool(self))

    def __and__(self, o):
        if isinstance(o, SBool):
            return mk_bool(z3.And(self.t, o.t))
        if isinstance(o, bool):
            return self if o else False
        return SInt.of_bool(self) & o
    __rand__ = __and__

    def __or__(self, o):
        if isinstance(o, SBool):
            return mk_bool(z3.Or(self.t, o.t))
        if isinstance(o, bool):
            return True if o else self
        return SInt.of_bool(self) | o
    __ror__ = __or__

    def __xor__(self, o):
        if isinstance(o, SBool):
            return mk_bool(z3.Xor(self.t, o.t))
        if isinstance(o, bool):
            return mk_bool(z3.Not(self.t)) if o else self
        return SInt.of_bool(self) ^ o
    __rxor__ = __xor__

    def __invert__(self):
        return ~SInt.of_bool(self)

    def __add__(self, o):
        return SInt.of_bool(self) + o
    __radd__ = __add__

    def __mul__(self, o):
        return SInt.of_bool(self) * o
    __rmul__ = __mul__


def mk_bool(t):
    t = z3.simplify(t)
    if z3.is_true(t):
        return True
    if z3.is_false(t):
        return False
    return SBool(t)


def sym_not(x):
    """logical negation without branching (used by harnesses)"""
    if isinstance(x, SBool):
        return mk_bool(z3.Not(x.t))
    return not x


def _bits(lo, hi):
    """number of bits k such that -2**k <= lo and hi < 2**k"""
    return max((-lo - 1).bit_length() if lo < 0 else 0, hi.bit_length() if hi > 0 else 0)


class SInt(object):
    __slots__ = ('t', 'lo', 'hi')

    def __init__(self, t, lo=None, hi=None):
        self.t = t
        self.lo = lo
        self.hi = hi

    # -- construction ------------------------------------------------------------------------
    @staticmethod
    def var(name, lo, hi):
        """fresh symbolic integer with lo <= v <= hi (constraint added to the current path)"""
        assert _fits(lo, hi), (lo, hi, Ctx.W)
        t = z3.BitVec(name, Ctx.W)
        eng = Ctx.cur
        eng.assume(z3.And(t >= bvv(lo), t <= bvv(hi)))
        eng.inputs[name] = t
        return SInt(t, lo, hi)

    @staticmethod
    def of_bool(b):
        if isinstance(b, SBool):
            return SInt(z3.If(b.t, bvv(1), bvv(0)), 0, 1)
        return _int(b)

    @staticmethod
    def of_bv(term, signed=False):
        """wrap a z3 bit-vector of width n <= W as the integer it denotes"""
        n = term.size()
        assert n < Ctx.W
        if signed:
            return mk(z3.SignExt(Ctx.W - n, term), -(1 << (n - 1)), (1 << (n - 1)) - 1)
        return mk(z3.ZeroExt(Ctx.W - n, term), 0, (1 << n) - 1)

    @property
    def exact(self):
        return _fits(self.lo, self.hi)

    def need_exact(self, what):
        if not _fits(self.lo, self.hi):
            raise PathAbort('inexact operand for %s' % what)

    # -- helpers -----------------------------------------------------------------------------
    def _other(self, o):
        """-> (term, lo, hi) or None"""
        if isinstance(o, SInt):
            return o.t, o.lo, o.hi
        if isinstance(o, bool):
            o = _int(o)
        if isinstance(o, _int):
            return bvv(o), o, o
        if isinstance(o, SBool):
            x = SInt.of_bool(o)
            return x.t, 0, 1
        if isinstance(o, float) and o.is_integer():
            o = _int(o)
            return bvv(o), o, o
        return None

    # -- ring operations (closed under congruence) ------------------------------------------
    def __add__(self, o):
        r = self._other(o)
        if r is None:
            return NotImplemented
        t, lo, hi = r
        if self.lo is None or lo is None:
            return mk(self.t + t)
        return mk(self.t + t, self.lo + lo, self.hi + hi)
    __radd__ = __add__

    def __sub__(self, o):
        r = self._other(o)
        if r is None:
            return NotImplemented
        t, lo, hi = r
        if self.lo is None or lo is None:
            return mk(self.t - t)
        return mk(self.t - t, self.lo - hi, self.hi - lo)

    def __rsub__(self, o):
        r = self._other(o)
        if r is None:
            return NotImplemented
        t, lo, hi = r
        if self.lo is None or lo is None:
            return mk(t - self.t)
        return mk(t - self.t, lo - self.hi, hi - self.lo)

    def __mul__(self, o):
        r = self._other(o)
        if r is None:
            return NotImplemented
        t, lo, hi = r
        if self.lo is None or lo is None:
            return mk(self.t * t)
        c = [self.lo * lo, self.lo * hi, self.hi * lo, self.hi * hi]
        return mk(self.t * t, min(c), max(c))
    __rmul__ = __mul__

    def __neg__(self):
        if self.lo is None:
            return mk(-self.t)
        return mk(-self.t, -self.hi, -self.lo)

    def __pos__(self):
        return self

    def __invert__(self):
        if self.lo is None:
            return mk(~self.t)
        return mk(~self.t, -self.hi - 1, -self.lo - 1)

    def _bitop(self, o, f, kind):
        r = self._other(o)
        if r is None:
            return NotImplemented
        t, lo, hi = r
        nt = f(self.t, t)
        if self.lo is None or lo is None:
            # and with a known non-negative operand is bounded by it (needs that operand exact)
            if kind == 'and':
                if lo is not None and lo >= 0 and _fits(lo, hi):
                    return mk(nt, 0, hi)
                if self.lo is not None and self.lo >= 0 and _fits(self.lo, self.hi):
                    return mk(nt, 0, self.hi)
            return mk(nt)
        if not (_fits(lo, hi) and _fits(self.lo, self.hi)):
            # bitwise ops are congruence-closed but the interval reasoning below needs true values
            if kind == 'and':
                if lo >= 0 and _fits(lo, hi):
                    return mk(nt, 0, hi)
                if self.lo >= 0 and _fits(self.lo, self.hi):
                    return mk(nt, 0, self.hi)
            return mk(nt)
        if kind == 'and':
            if self.lo >= 0 and lo >= 0:
                return mk(nt, 0, min(self.hi, hi))
            if lo >= 0:
                return mk(nt, 0, hi)
            if self.lo >= 0:
                return mk(nt, 0, self.hi)
        k = max(_bits(self.lo, self.hi), _bits(lo, hi))
        if self.lo >= 0 and lo >= 0:
            return mk(nt, 0, (1 << k) - 1)
        return mk(nt, -(1 << k), (1 << k) - 1)

    def __and__(self, o):
        return self._bitop(o, lambda a, b: a & b, 'and')
    __rand__ = __and__

    def __or__(self, o):
        return self._bitop(o, lambda a, b: a | b, 'or')
    __ror__ = __or__

    def __xor__(self, o):
        return self._bitop(o, lambda a, b: a ^ b, 'xor')
    __rxor__ = __xor__

    # -- shifts ------------------------------------------------------------------------------
    @staticmethod
    def _shl(at, alo, ahi, st, slo, shi):
        # count must be exact and non-negative (Python raises ValueError on negative counts)
        if not _fits(slo, shi):
            raise PathAbort('inexact shift count')
        if slo < 0:
            if Ctx.cur.branch(st < bvv(0)):
                raise ValueError('negative shift count')
            slo = 0
        nt = at << st
        if alo is None or shi > 4 * Ctx.W:
            return mk(nt)
        lo = (alo << shi) if alo < 0 else (alo << slo)
        hi = (ahi << shi) if ahi > 0 else (ahi << slo)
        return mk(nt, lo, hi)

    def __lshift__(self, o):
        r = self._other(o)
        if r is None:
            return NotImplemented
        return SInt._shl(self.t, self.lo, self.hi, *r)

    def __rlshift__(self, o):
        r = self._other(o)
        if r is None:
            return NotImplemented
        return SInt._shl(r[0], r[1], r[2], self.t, self.lo, self.hi)

    @staticmethod
    def _shr(at, alo, ahi, st, slo, shi):
        if not _fits(alo, ahi):
            raise PathAbort('inexact operand of >>')
        if not _fits(slo, shi):
            raise PathAbort('inexact shift count')
        if slo < 0:
            if Ctx.cur.branch(st < bvv(0)):
                raise ValueError('negative shift count')
            slo = 0
        nt = at >> st   # arithmetic: floor division by 2**s for exact operands (s >= W saturates)
        lo = (alo >> slo) if alo < 0 else (alo >> min(shi, 8 * Ctx.W))
        hi = (ahi >> slo) if ahi >= 0 else (ahi >> min(shi, 8 * Ctx.W))
        return mk(nt, lo, hi)

    def __rshift__(self, o):
        r = self._other(o)
        if r is None:
            return NotImplemented
        return SInt._shr(self.t, self.lo, self.hi, *r)

    def __rrshift__(self, o):
        r = self._other(o)
        if r is None:
            return NotImplemented
        return SInt._shr(r[0], r[1], r[2], self.t, self.lo, self.hi)

    # -- division family -----------------------------------------------------------------------
    @staticmethod
    def _divmod(at, alo, ahi, bt, blo, bhi, want):
        # power-of-two constant modulus: congruence-closed, always fine
        if blo is not None and blo == bhi and blo > 0 and (blo & (blo - 1)) == 0 and blo < (1 << (Ctx.W - 1)):
            if want == 'mod':
                return mk(at & bvv(blo - 1), 0, blo - 1)
        if not _fits(alo, ahi) or not _fits(blo, bhi):
            raise PathAbort('inexact operand of %s' % want)
        if blo <= 0 <= bhi:
            if Ctx.cur.branch(bt == bvv(0)):
                raise ZeroDivisionError('integer division or modulo by zero')
        # floor semantics:  q = floor(a/b), r = a - q*b  (sign of r follows b)
        # z3: bvsdiv truncates toward zero, bvsmod has the sign of the divisor == python %
        r = at % bt   # bvsmod: sign of the divisor, as Python
        tq = z3.If(bt == 0, bvv(0), at / bt)       # truncated
        # floor = trunc - 1 when remainder non-zero and signs differ
        q = z3.If(z3.And(z3.SRem(at, bt) != 0, (at < 0) != (bt < 0)), tq - 1, tq)
        m = max(abs(alo), abs(ahi))
        if want == 'mod':
            mb = max(abs(blo), abs(bhi))
            lo = 0 if blo > 0 else -(mb - 1)
            hi = 0 if bhi < 0 else (mb - 1)
            return mk(r, lo, hi)
        return mk(q, -m - 1, m + 1)

    def __mod__(self, o):
        r = self._other(o)
        if r is None:
            return NotImplemented
        return SInt._divmod(self.t, self.lo, self.hi, r[0], r[1], r[2], 'mod')

    def __rmod__(self, o):
        r = self._other(o)
        if r is None:
            return NotImplemented
        return SInt._divmod(r[0], r[1], r[2], self.t, self.lo, self.hi, 'mod')

    def __floordiv__(self, o):
        r = self._other(o)
        if r is None:
            return NotImplemented
        return SInt._divmod(self.t, self.lo, self.hi, r[0], r[1], r[2], 'div')

    def __rfloordiv__(self, o):
        r = self._other(o)
        if r is None:
            return NotImplemented
        return SInt._divmod(r[0], r[1], r[2], self.t, self.lo, self.hi, 'div')

    def __divmod__(self, o):
        return (self // o, self % o)

    def __truediv__(self, o):
        # true division yields a float in Python 3: only the exact, integral case is supported,
        # and the result is marked so that int()/comparison see the exact rational.
        if isinstance(o, _int) and o > 0 and (o & (o - 1)) == 0:
            self.need_exact('/')
            k = o.bit_length() - 1
            if Ctx.cur.prove(z3.Extract(k - 1, 0, self.t) == 0) if k else True:
                if max(abs(self.lo), abs(self.hi)) >= (1 << 53):
                    raise PathAbort('float precision')
                return self >> k
        raise PathAbort('true division of a symbolic integer')

    def __rtruediv__(self, o):
        raise PathAbort('true division by a symbolic integer')

    def __pow__(self, o, mod=None):
        if mod is None and isinstance(o, _int) and 0 <= o <= 8:
            r = 1
            for _ in range(o):
                r = r * self
            return r
        # general case: square-and-multiply over the exponent's bits.  The W-bit term stays congruent to the true power modulo
        # 2^W (ring operations only); the true magnitude is not tracked (interval 'unknown'), so only operations that are
        # closed under the congruence (& mask, % 2^k, + - *) may follow - anything else makes the path inconclusive.
        if isinstance(o, SInt):
            if not _fits(o.lo, o.hi):
                raise PathAbort('pow: exponent of unknown magnitude')
            if o.lo < 0:
                if Ctx.cur.branch(o.t < bvv(0)):
                    raise PathAbort('negative exponent (float result)')
            bits = max(o.hi, 0).bit_length()
            if bits > 10:
                # z3 flattens nested products: b^(2^i) becomes a product of 2^i factors - out of reach beyond ~10 exponent bits
                raise PathAbort('pow: symbolic exponent wider than 10 bits')
            r, b = bvv(1), self.t
            for i in range(bits):
                r = z3.If(z3.Extract(i, i, o.t) == z3.BitVecVal(1, 1), r * b, r)
                if i + 1 < bits:
                    b = b * b
        elif isinstance(o, _int) and not isinstance(o, bool) and o >= 0:
            if o.bit_length() > 10:
                raise PathAbort('pow: exponent too large')
            r, b = bvv(1), self.t
            for i in range(o.bit_length()):
                if (o >> i) & 1:
                    r = r * b
                if i + 1 < o.bit_length():
                    b = b * b
        else:
            return NotImplemented
        if mod is not None:
            if not isinstance(mod, _int) or mod <= 0 or (mod & (mod - 1)) or mod.bit_length() > Ctx.W - 1:
                raise PathAbort('pow: modulus is not a power of two below 2^(W-1)')
            return mk(r & bvv(mod - 1), 0, mod - 1)
        return mk(r)

    def __rpow__(self, o):
        if not isinstance(o, _int) or o <= 0 or (o & (o - 1)):
            raise PathAbort('rpow base')
        self.need_exact('**')
        k = o.bit_length() - 1
        if self.lo < 0:
            if Ctx.cur.branch(self.t < bvv(0)):
                raise PathAbort('negative exponent (float result)')
        lim = (Ctx.W - 2) // max(k, 1)
        if self.hi > lim:
            if not Ctx.cur.branch(self.t <= bvv(lim)):
                raise PathAbort('blowup: %d**s with s > %d' % (o, lim))
        hi = min(self.hi, lim)
        return mk(bvv(1) << (self.t * bvv(k)), 1, 1 << (k * hi))

    def bit_length(self):
        """int.bit_length of the true value (number of bits of the magnitude)"""
        self.need_exact('bit_length')
        mag = z3.If(self.t < 0, -self.t, self.t)
        r = bvv(0)
        for i in range(Ctx.W - 1):
            r = z3.If(z3.Extract(i, i, mag) == z3.BitVecVal(1, 1), bvv(i + 1), r)
        return mk(r, 0, max(abs(self.lo), abs(self.hi)).bit_length())

    def __abs__(self):
        self.need_exact('abs')
        m = max(abs(self.lo), abs(self.hi))
        return mk(z3.If(self.t < 0, -self.t, self.t), 0, m)

    # -- comparisons (need true values) ------------------------------------------------------
    def _cmp(self, o, f, fi):
        r = self._other(o)
        if r is None:
            if isinstance(o, float):
                raise PathAbort('comparison with non-integral float')
            return NotImplemented
        t, lo, hi = r
        if not _fits(self.lo, self.hi) or not _fits(lo, hi):
            raise PathAbort('inexact operand of comparison')
        d = fi(self.lo, self.hi, lo, hi)
        if d is not None:
            return d
        return mk_bool(f(self.t, t))

    def __eq__(self, o):
        return self._cmp(o, lambda a, b: a == b,
                         lambda al, ah, bl, bh: False if (ah < bl or bh < al) else (True if al == ah == bl == bh else None))

    def __ne__(self, o):
        return self._cmp(o, lambda a, b: a != b,
                         lambda al, ah, bl, bh: True if (ah < bl or bh < al) else (False if al == ah == bl == bh else None))

    def __lt__(self, o):
        return self._cmp(o, lambda a, b: a < b,
                         lambda al, ah, bl, bh: True if ah < bl else (False if al >= bh else None))

    def __le__(self, o):
        return self._cmp(o, lambda a, b: a <= b,
                         lambda al, ah, bl, bh: True if ah <= bl else (False if al > bh else None))

    def __gt__(self, o):
        return self._cmp(o, lambda a, b: a > b,
                         lambda al, ah, bl, bh: True if al > bh else (False if ah <= bl else None))

    def __ge__(self, o):
        return self._cmp(o, lambda a, b: a >= b,
                         lambda al, ah, bl, bh: True if al >= bh else (False if ah < bl else None))

    def __bool__(self):
        self.need_exact('bool')
        if self.lo > 0 or self.hi < 0:
            return True
        return Ctx.cur.branch(self.t != bvv(0))

    # -- concretisation ----------------------------------------------------------------------
    def __index__(self):
        self.need_exact('index')
        return Ctx.cur.concretize(self.t)

    def __int__(self):
        return self.__index__()

    def __hash__(self):
        return hash(self.__index__())

    def __float__(self):
        return float(self.__index__())


    def __repr__(self):
        if getattr(Ctx.cur, 'render_map', None) is not None:
            return render_number(self)
        return '<sym>'
    __str__ = __repr__

    def __format__(self, spec):
        if getattr(Ctx.cur, 'render_map', None) is not None and spec in ('', 'd', 'x', 'X', '#x', '#X', 'o'):
            return render_number(self, spec[-1] if spec else 'd', alt=spec.startswith('#'))
        Ctx.cur.stats['sym_format'] = Ctx.cur.stats.get('sym_format', 0) + 1
        return '<sym>'


RENDER_BASE = 3000017


def render_number(x, conv='d', alt=False, plus=False):
    """text of a symbolic integer while the engine is in render mode (Engine.render_map is a dict): the sign is decided by a
    fork, the magnitude is printed as a reserved placeholder numeral P (decimal / hex as asked) and render_map[P] is the
    symbolic magnitude - a lexer that maps the NUMBER token P back to render_map[P] reads the text as the number itself;
    only digit-string <-> integer conversion is not modelled"""
    rm = Ctx.cur.render_map
    if isinstance(x, SBool):
        x = SInt.of_bool(x)
    if conv in ('i', 'u'):
        conv = 'd'
    neg = bool(x < 0)
    v = -x if neg else x
    fmt = '%' + ('#' if alt else '') + conv
    if isinstance(v, _int):
        text = fmt % v
    else:
        P = None
        for p_, s_ in rm.items():
            if s_.t.eq(v.t):
                P = p_
        if P is None:
            P = RENDER_BASE + 13 * len(rm)
            rm[P] = v
        text = fmt % P
    return ('-' if neg else ('+' if plus else '')) + text


def mk(t, lo=None, hi=None):
    """build an SInt or collapse to a Python int when the value is known exactly"""
    if lo is not None and lo == hi:
        return lo
    t = z3.simplify(t)
    if lo is not None and _fits(lo, hi) and z3.is_bv_value(t):
        return t.as_signed_long()
    return SInt(t, lo, hi)


def term_of(x):
    """z3 W-bit term of an int-like"""
    if isinstance(x, SInt):
        return x.t
    if isinstance(x, SBool):
        return SInt.of_bool(x).t
    if isinstance(x, (_int, bool)):
        return bvv(_int(x))
    if isinstance(x, float) and x.is_integer():
        return bvv(_int(x))
    raise TypeError('term_of(%r)' % type(x))


def is_sym(x):
    return isinstance(x, (SInt, SBool))


def bool_term(x):
    if isinstance(x, SBool):
        return x.t
    if isinstance(x, bool):
        return z3.BoolVal(x)
    if isinstance(x, SInt):
        return x.t != bvv(0)
    return z3.BoolVal(bool(x))


class Engine(object):
    """replay-based DFS path explorer"""

    def __init__(self, width=72, timeout_ms=20000, max_paths=20000, max_seconds=600, conc_cap=512, path_seconds=None):
        self.path_seconds = path_seconds
        self.width = width
        self.s = z3.Solver()
        self.s.set('timeout', timeout_ms)
        self.timeout_ms = timeout_ms
        self.max_paths = max_paths
        self.max_seconds = max_seconds
        self.conc_cap = conc_cap
        self.stats = dict(paths=0, queries=0, solver_s=0.0, unknown=0, aborted=0)
        self.inputs = {}
        self.model = None

    # -- solver plumbing -------------------------------------------------------------------
    def _check(self, *extra):
        t = time.time()
        r = str(self.s.check(*extra))
        self.stats['solver_s'] += time.time() - t
        self.stats['queries'] += 1
        if r == 'unknown':
            self.stats['unknown'] += 1
        return r

    def assume(self, cond):
        """add a constraint on the inputs to the current path (must be deterministic)"""
        self.s.add(cond)
        self.pc.append(cond)
        self.model = None

    def _model(self):
        if self.model is None:
            r = self._check()
            if r == 'unsat':
                raise Infeasible()
            if r != 'sat':
                raise PathAbort('path condition %s' % r)
            self.model = self.s.model()
        return self.model

    def branch(self, cond):
        cond = z3.simplify(cond)
        if z3.is_true(cond):
            return True
        if z3.is_false(cond):
            return False
        i = self.pos
        self.pos += 1
        replayed = i < len(self.prefix)
        if replayed:
            kind, rc, d = self.prefix[i]
            if kind != 'b' or not rc.eq(cond):
                raise NonDeterminism('replay diverged at decision %d' % i)
        else:
            if time.time() > self.deadline:
                raise PathAbort('time cap')
            m = self._model()
            d = z3.is_true(m.eval(cond, model_completion=True))
            other = z3.Not(cond) if d else cond
            r = self._check(other)
            if r == 'sat':
                self.work.append(self.prefix[:i] + [('b', cond, not d)])
            elif r == 'unknown':
                self.unexplored.append('branch unknown')
            self.prefix.append(('b', cond, d))
        c = cond if d else z3.Not(cond)
        self.s.add(c)
        self.pc.append(c)
        if replayed:
            self.model = None   # (a fresh decision keeps the model: it satisfies the taken side)
        return d

    def concretize(self, t):
        t = z3.simplify(t)
        if z3.is_bv_value(t):
            return t.as_signed_long()
        i = self.pos
        self.pos += 1
        if i < len(self.prefix):
            kind, rt, v = self.prefix[i]
            if kind != 'c' or not rt.eq(t):
                raise NonDeterminism('replay diverged at concretisation %d' % i)
        else:
            vals = []
            self.s.push()
            while len(vals) <= self.conc_cap:
                if self._check() != 'sat':
                    break
                v = self.s.model().eval(t, model_completion=True)
                vals.append(v)
                self.s.add(t != v)
            self.s.pop()
            self.model = None
            if not vals:
                raise PathAbort('concretise: infeasible/unknown')
            if len(vals) > self.conc_cap:
                raise PathAbort('concretise: more than %d values' % self.conc_cap)
            for v in vals[1:]:
                self.work.append(self.prefix[:i] + [('c', t, v)])
            v = vals[0]
            self.prefix.append(('c', t, v))
        c = (t == v)
        self.s.add(c)
        self.pc.append(c)
        self.model = None
        return v.as_signed_long()

    def fork_classes(self, t, nclasses, cond_of, class_of_value=None):
        """cond_of(k): z3 condition over t for class k (the classes partition the feasible values); returns k.
        On replay only the recorded class's condition is built."""
        i = self.pos
        self.pos += 1
        if i < len(self.prefix):
            kind, rt, k = self.prefix[i]
            if kind != 'k' or not rt.eq(t):
                raise NonDeterminism('replay diverged at class fork %d' % i)
        else:
            feas = []
            if class_of_value is not None:
                # model-guided: one query per feasible class (+1) instead of one per class
                self.s.push()
                while True:
                    r = self._check()
                    if r != 'sat':
                        if r == 'unknown':
                            self.unexplored.append('class unknown')
                        break
                    v = self.s.model().eval(t, model_completion=True).as_signed_long()
                    k = class_of_value(v)
                    feas.append(k)
                    self.s.add(z3.Not(cond_of(k)))
                self.s.pop()
                feas.sort()
            else:
                for k in range(nclasses):
                    r = self._check(cond_of(k))
                    if r == 'sat':
                        feas.append(k)
                    elif r == 'unknown':
                        self.unexplored.append('class unknown')
            self.model = None
            if not feas:
                raise PathAbort('class fork: infeasible')
            for k in feas[1:]:
                self.work.append(self.prefix[:i] + [('k', t, k)])
            k = feas[0]
            self.prefix.append(('k', t, k))
        c = cond_of(k)
        self.s.add(c)
        self.pc.append(c)
        self.model = None
        return k

    # -- queries used by harnesses -----------------------------------------------------------
    def prove(self, claim):
        """True iff claim is valid under the path condition (unknown => PathAbort)"""
        claim = z3.simplify(claim) if not isinstance(claim, bool) else z3.BoolVal(claim)
        if z3.is_true(claim):
            return True
        r = self._check(z3.Not(claim))
        if r == 'unsat':
            return True
        if r == 'sat':
            return False
        raise PathAbort('prove: unknown')

    def find(self, cond):
        """-> ('sat', model) | ('unsat', None) | ('unknown', None) under the path condition"""
        if isinstance(cond, bool):
            cond = z3.BoolVal(cond)
        r = self._check(cond)
        if r == 'sat':
            return r, self.s.model()
        return r, None

    def witness(self):
        """a model of the current path condition"""
        return self._model()

    def model_inputs(self, m):
        out = {}
        for k, t in self.inputs.items():
            out[k] = m.eval(t, model_completion=True).as_signed_long()
        return out

    # -- exploration ---------------------------------------------------------------------------
    def explore(self, fn, on_path=None):
        """run fn(engine) on every feasible path; returns list of (result|('ABORT',msg)|('EXC',exc))"""
        Ctx.W = self.width
        self.work = [[]]
        self.unexplored = []
        results = []
        t0 = time.time()
        self.deadline = t0 + self.max_seconds
        while self.work:
            if self.stats['paths'] >= self.max_paths or time.time() > self.deadline:
                self.unexplored.append('cap: %d prefixes left' % len(self.work))
                break
            self.prefix = self.work.pop()
            self.pos = 0
            self.pc = []
            self.inputs = {}
            self.model = None
            self.s.push()
            Ctx.cur = self
            try:
                try:
                    if self.path_seconds:
                        import signal
                        p_t0 = time.time()
                        p_s0 = self.stats['solver_s']

                        def _alarm(sig, frm):
                            # only interpreter time counts: solver time has its own timeout
                            spent = (time.time() - p_t0) - (self.stats['solver_s'] - p_s0)
                            if spent >= self.path_seconds:
                                raise PathTimeout()
                            signal.setitimer(signal.ITIMER_REAL, max(0.5, self.path_seconds - spent))
                        signal.signal(signal.SIGALRM, _alarm)
                        signal.setitimer(signal.ITIMER_REAL, self.path_seconds)
                    try:
                        r = fn(self)
                    finally:
                        if self.path_seconds:
                            signal.setitimer(signal.ITIMER_REAL, 0)
                except PathTimeout:
                    r = ('TIMEOUT', self.model_inputs(self.s.model()) if self._check() == 'sat' else {})
                except PathAbort as a:
                    self.stats['aborted'] += 1
                    r = ('ABORT', str(a))
                except Infeasible:
                    self.stats['infeasible'] = self.stats.get('infeasible', 0) + 1
                    continue
                except RecursionError as e:
                    r = ('EXC', e)
                except NonDeterminism as e:
                    # a re-run of a recorded prefix took other decisions (state the harness does not reset between paths): the
                    # remaining prefixes cannot be trusted - stop, and say so (the caller reports it as inconclusive, never as success)
                    self.stats['nondeterministic'] = self.stats.get('nondeterministic', 0) + 1
                    self.unexplored.append('exploration not deterministic (%s); %d prefixes dropped' % (e, len(self.work)))
                    self.work = []
                    continue
                if on_path is not None:
                    on_path(r)
                else:
                    results.append(r)
            finally:
                Ctx.cur = None
                self.s.pop()
                self.stats['paths'] += 1
        self.stats['wall_s'] = time.time() - t0
        return results
