"""Validation of the reference semantics (vf/x86spec/sem.py) against the host CPU in a 32-bit process.

For each instruction of a basket (assembled and decoded by miasmX, operands from miasmX's own operand
expressions - which C01/C11 check separately), the reference is evaluated on boundary and seeded-random
concrete states and compared with the CPU on every resource the reference declares defined.
usage: python -m vf.x86spec.validate [nstates]   (exit 1 on any disagreement)
"""
import random
import sys

import z3

LINES = '''
add eax, ebx|add al, bl|add cx, dx|add DWORD PTR [esi], eax|add eax, DWORD PTR [esi+4]|add ecx, 0x7fffffff|add bl, 0x80
adc eax, ebx|adc al, bl|adc cx, dx|adc DWORD PTR [esi], eax|sub eax, ebx|sub al, bl|sub cx, dx|sub DWORD PTR [esi], ecx
sbb eax, ebx|sbb al, bl|sbb cx, dx|sbb eax, 0xffffffff|cmp eax, ebx|cmp al, bl|cmp WORD PTR [esi], dx|inc eax|inc bl|inc WORD PTR [esi]
dec eax|dec bl|dec cx|neg eax|neg bl|neg WORD PTR [esi]|not eax|not bl|and eax, ebx|and al, 0xf0|or cx, dx|xor eax, eax|xor DWORD PTR [esi], eax
test eax, ebx|test al, bl|shl eax, cl|shl al, cl|shl cx, cl|shl eax, 1|shl eax, 31|shl bl, 7|shr eax, cl|shr al, cl|shr cx, cl|shr eax, 1
sar eax, cl|sar al, cl|sar cx, cl|sar eax, 1|sar ebx, 31|rol eax, cl|rol al, cl|rol cx, cl|rol eax, 1|ror eax, cl|ror al, cl|ror bx, cl|ror eax, 1
rcl eax, cl|rcl al, cl|rcl cx, cl|rcl eax, 1|rcr eax, cl|rcr al, cl|rcr cx, cl|rcr eax, 1|shld eax, ebx, cl|shld eax, ebx, 4|shld cx, dx, cl
shrd eax, ebx, cl|shrd eax, ebx, 4|shrd cx, dx, 3|mul ebx|mul bl|mul cx|imul ebx|imul bl|imul cx|imul eax, ebx|imul cx, dx|imul eax, ebx, 1000
imul eax, DWORD PTR [esi], -3|div ebx|div bl|div cx|idiv ebx|idiv bl|idiv cx|bt eax, ebx|bt eax, 5|bts eax, ebx|btr eax, 7|btc cx, dx
bt DWORD PTR [esi], 3|bts DWORD PTR [esi], eax|bsf eax, ebx|bsr eax, ebx|bsf cx, dx|cbw|cwde|cwd|cdq|clc|stc|cmc|lahf|sahf
sete al|setl bl|setbe cl|setg dl|setns al|seto BYTE PTR [esi]|cmove eax, ebx|cmovl ecx, edx|cmova ax, bx|cmovs eax, DWORD PTR [esi]
xchg eax, ebx|xchg al, bh|xchg DWORD PTR [esi], ecx|xadd eax, ebx|xadd bl, cl|xadd DWORD PTR [esi], edx|cmpxchg ebx, ecx|cmpxchg bl, cl
cmpxchg DWORD PTR [esi], ecx|bswap eax|bswap esi|mov eax, ebx|mov al, bh|mov WORD PTR [esi], cx|mov eax, DWORD PTR [esi+8]|mov ecx, 0x12345678
movzx eax, bl|movzx eax, cx|movzx cx, dl|movsx eax, bl|movsx eax, cx|movsx cx, dl|movsx eax, BYTE PTR [esi]|lea eax, [ebx+ecx*4+16]|lea cx, [ebx+esi]
push eax|push bx|push 0x12345678|push DWORD PTR [esi]|pop eax|pop bx|pop DWORD PTR [esi]|leave|nop
movsb|movsw|movsd|stosb|stosw|stosd|lodsb|lodsw|lodsd|cmpsb|cmpsd|scasb|scasw|scasd
'''
LINES = [l.strip() for part in LINES.strip().split('\n') for l in part.split('|') if l.strip()]
BOUNDARY = [0, 1, 2, 0x7f, 0x80, 0xff, 0x100, 0x7fff, 0x8000, 0xffff, 0x10000, 0x7fffffff, 0x80000000, 0xffffffff, 0xfffffffe, 0x55555555, 0xaaaaaaaa]


def main(nstates=12, seed=0, lines=None, verbose=True):
    sys.setrecursionlimit(10000)
    import miasmx.arch.ia32_arch as A
    import miasmx.arch.ia32_sem as SEM
    import miasmx.tools.emul_helper as EH
    import miasmx.expression.expression as X
    import miasmx.tools.modint as M
    from vf import ir2smt
    from vf.x86spec import sem as SPEC
    from vf.oracles import cpu32
    rnd = random.Random(seed)
    total = bad = faults = 0
    report = []
    for line in (lines or LINES):
        try:
            b = bytes(A.x86mnemo.asm(line)[0])
            i = A.x86mnemo.dis(b + b'\x90' * 4)
            EH.get_instr_expr(i, X.ExprInt(M.uint32(i.l)), [])
            args = i.arg_expr
        except Exception as ex:
            report.append('%-36s cannot be prepared: %s %s' % (line, type(ex).__name__, ex))
            continue
        name = i.m.name
        c = ir2smt.Ctx(strict=False, flat=True)
        S = SPEC.Spec(c, z3.BitVecVal(i.l, 32))
        try:
            SPEC.sem(name, S, args, {'opsize': 16 if i.opmode == A.u16 else 32, 'l': i.l, 'adsize': 16 if i.admode == A.u16 else 32})
        except SPEC.Unsupported as ex:
            report.append('%-36s unsupported by the reference: %s' % (line, ex))
            continue
        for k in range(nstates):
            regs = {}
            for r in cpu32.REGS:
                regs[r] = rnd.choice(BOUNDARY) if rnd.random() < 0.6 else rnd.getrandbits(32)
            if k % 3 == 0:
                regs['ecx'] = rnd.choice([0, 1, 7, 8, 15, 16, 17, 31, 32, 33, 63, 0x80, 0xff])
            for r in ('esi', 'edi'):
                regs[r] = cpu32.WIN_BASE + 0x800 + 4 * rnd.randrange(0, 32)
            regs['esp'] = cpu32.WIN_BASE + 0x1000 + 4 * rnd.randrange(0, 32)
            regs['ebp'] = cpu32.WIN_BASE + 0x1400 + 4 * rnd.randrange(0, 32)
            if 'lea' not in line and '[ebx' in line:
                regs['ebx'] = cpu32.WIN_BASE + 0x600
            flags = dict((f, rnd.getrandbits(1)) for f in cpu32.FLAG_BITS)
            window = {}
            for pr in ('esi', 'edi', 'esp', 'ebp', 'ebx'):
                base = regs[pr] - cpu32.WIN_BASE
                if 0x100 <= base < cpu32.WIN_SIZE - 0x100:
                    for o in range(base - 40, base + 40):
                        window[o] = rnd.choice([0, 0xff, 0x80, rnd.getrandbits(8)])
            r = cpu32.run(b, regs, flags, window)
            total += 1
            sub = []
            for (nm, sz), v in c.ids.items():
                if nm in regs:
                    sub.append((v, z3.BitVecVal(regs[nm], sz)))
                elif nm in flags:
                    sub.append((v, z3.BitVecVal(flags[nm], sz)))
                else:
                    sub.append((v, z3.BitVecVal(0, sz)))
            mem = z3.K(z3.BitVecSort(32), z3.BitVecVal(0, 8))
            for o, v in window.items():
                mem = z3.Store(mem, z3.BitVecVal(cpu32.WIN_BASE + o, 32), z3.BitVecVal(v, 8))
            sub.append((c.mem0, mem))
            ev = lambda t: z3.simplify(z3.substitute(t, *sub))
            nofault = all(z3.is_true(ev(a)) for a in S.assume)
            if r.get('fault'):
                faults += 1
                if nofault and r['fault'] == 'SIGFPE':
                    bad += 1
                    report.append('%-36s CPU raises #DE where the reference does not expect it: %s' % (line, regs))
                continue
            if not nofault:
                bad += 1
                report.append('%-36s the reference expects a fault, the CPU does not: %s' % (line, regs))
                continue
            for (nm, sz), t in S.post.items():
                d = S.defined.get((nm, sz), z3.BoolVal(True))
                if not z3.is_true(ev(d)):
                    continue
                want = ev(t).as_long()
                got = r['flags'][nm] if nm in r['flags'] else r['regs'].get(nm)
                if got is None:
                    continue
                if got != want:
                    bad += 1
                    report.append('%-36s %s: reference %#x, CPU %#x  (regs %s flags %s)' % (line, nm, want, got, {k_: hex(v) for k_, v in regs.items()}, flags))
            # registers / flags the reference leaves alone must be unchanged on the CPU
            for nm in cpu32.REGS:
                if (nm, 32) not in S.post and r['regs'][nm] != regs[nm]:
                    bad += 1
                    report.append('%-36s %s changes on the CPU (%#x -> %#x) but not in the reference' % (line, nm, regs[nm], r['regs'][nm]))
            for nm in cpu32.FLAG_BITS:
                if (nm, 1) not in S.post and r['flags'][nm] != flags[nm]:
                    bad += 1
                    report.append('%-36s flag %s changes on the CPU but not in the reference' % (line, nm))
            # memory: replay the reference's stores concretely, everything else must be untouched
            final = dict(window)
            for ad, val in S.stores:
                a0 = ev(ad).as_long()
                v0 = ev(val).as_long()
                for kk in range(val.size() // 8):
                    final[(a0 + kk - cpu32.WIN_BASE) & 0xFFFFFFFF] = (v0 >> (8 * kk)) & 0xFF
            for o in range(0x100, cpu32.WIN_SIZE - 0x100):
                want = final.get(o, 0)
                if r['window'][o] != want:
                    bad += 1
                    report.append('%-36s memory byte at window+%#x: reference %#x, CPU %#x' % (line, o, want, r['window'][o]))
                    break
    if verbose:
        for l in report[:60]:
            print(l)
        print('validated %d (instruction, state) pairs of %d instructions against the CPU: %d disagreement(s), %d faulting states' % (total, len(lines or LINES), bad, faults))
    return total, bad, report


if __name__ == '__main__':
    n = int(sys.argv[1]) if len(sys.argv) > 1 else 12
    t, b, rep = main(n)
    sys.exit(1 if b else 0)
