"""Reference semantics of the IA-32 integer core in z3 (transcribed from the SDM operation sections).

Operands are the IR operand expressions the lifter itself is given (ExprId / ExprSlice of a register /
ExprMem / ExprInt): the spec reads them under E1 in the pre-state and writes post-state resources.
Every flag / register the SDM leaves undefined is excluded by a *definedness condition* (a z3 Bool over
the pre-state), so state-dependent undefinedness (shift counts ...) is handled exactly.
Validated against the host CPU (vf/oracles/cpu32.py) in the thorough tier and at every counterexample.
"""
import sys
import z3

from vf import ir2smt

FLAGS = ['cf', 'pf', 'af', 'zf', 'nf', 'of', 'df']
GPR = ['eax', 'ecx', 'edx', 'ebx', 'esp', 'ebp', 'esi', 'edi']


def _X():
    return sys.modules['miasmx.expression.expression']


def bv(v, n):
    return z3.BitVecVal(v, n)


def msb(x):
    n = x.size()
    return z3.Extract(n - 1, n - 1, x)


def bit(x, i):
    return z3.Extract(i, i, x)


def b2bv(c):
    return z3.If(c, bv(1, 1), bv(0, 1))


def zx(x, n):
    return z3.ZeroExt(n - x.size(), x) if x.size() < n else (z3.Extract(n - 1, 0, x) if x.size() > n else x)


def sx(x, n):
    return z3.SignExt(n - x.size(), x) if x.size() < n else (z3.Extract(n - 1, 0, x) if x.size() > n else x)


def parity(x):
    p = bv(1, 1)
    for i in range(8):
        p = p ^ bit(x, i)
    return p


class Unsupported(Exception):
    pass


class Spec(object):
    def __init__(self, ctx, next_eip):
        self.c = ctx                        # ir2smt.Ctx (flat): pre-state variables
        self.post = {}                      # (name, size) -> term
        self.defined = {}                   # (name, size) -> z3 Bool (True when absent)
        self.mem = ctx.mem
        self.next_eip = next_eip            # 32-bit term
        self.eip = None                     # post eip (None: falls through)
        self.assume = []                    # conditions under which the instruction does not fault (#DE)
        self.stores = []                    # (address term, value term) in program order

    # -- state access ------------------------------------------------------------------------------
    def pre(self, name, size=32):
        return self.c.id(name, size)

    def cur(self, name, size=32):
        return self.post.get((name, size), self.c.id(name, size))

    def rd(self, e):
        """value of operand e in the PRE-state"""
        return ir2smt.tr(e, self.c)

    def rdmem(self, addr, nbytes):
        self.c.mem_reads.append((addr, nbytes))
        return self.c.load(self.c.mem, addr, nbytes)

    def set(self, name, val, size=32, defined=None):
        self.post[(name, size)] = val
        if defined is not None:
            self.defined[(name, size)] = defined

    def flag(self, name, val, defined=None):
        if z3.is_bool(val):
            val = b2bv(val)
        self.set(name, val, 1, defined)

    def keep_if(self, cond, names):
        """flags keep their pre-state value when cond holds"""
        for n in names:
            k = (n, 1)
            if k in self.post:
                self.post[k] = z3.If(cond, self.pre(n, 1), self.post[k])
                if k in self.defined:
                    self.defined[k] = z3.Or(cond, self.defined[k])

    def undef(self, *names):
        for n in names:
            self.post[(n, 1)] = self.pre(n, 1)
            self.defined[(n, 1)] = z3.BoolVal(False)

    def store(self, addr, val):
        self.c.mem_reads.append((addr, val.size() // 8))
        self.stores.append((addr, val))
        self.mem = self.c.store(self.mem, addr, val, val.size() // 8)

    def addr_of(self, e):
        X = _X()
        a = ir2smt.tr(e.arg, self.c)
        return zx(a, 32)

    def wr(self, e, val, defined=None):
        """write operand e (register, sub-register slice or memory)"""
        X = _X()
        if isinstance(e, X.ExprId):
            if val.size() != e.size:
                raise Unsupported('%d-bit value for the %d-bit register %s' % (val.size(), e.size, e.name))
            if e.name not in GPR and e.name not in FLAGS:
                raise Unsupported('destination %s is outside the integer core' % e.name)
            self.set(e.name, val, e.size, defined)
        elif isinstance(e, X.ExprSlice) and isinstance(e.arg, X.ExprId):
            r = e.arg
            old = self.cur(r.name, r.size)
            parts = []
            if e.stop < r.size:
                parts.append(z3.Extract(r.size - 1, e.stop, old))
            parts.append(val)
            if e.start > 0:
                parts.append(z3.Extract(e.start - 1, 0, old))
            new = z3.Concat(*parts) if len(parts) > 1 else parts[0]
            d = None
            if defined is not None:
                d = defined
            self.set(r.name, new, r.size, d)
        elif isinstance(e, X.ExprMem):
            if val.size() != e.size:
                raise Unsupported('%d-bit value for a %d-bit memory operand' % (val.size(), e.size))
            self.store(self.addr_of(e), val)
        else:
            raise Unsupported('destination %r' % e)

    # -- flag helpers --------------------------------------------------------------------------------
    def szp(self, r):
        self.flag('zf', r == 0)
        self.flag('nf', msb(r))
        self.flag('pf', parity(r))

    def add_flags(self, x, y, r, cin=None):
        n = x.size()
        w = z3.ZeroExt(1, x) + z3.ZeroExt(1, y)
        if cin is not None:
            w = w + z3.ZeroExt(n, cin)
        self.flag('cf', bit(w, n))
        self.flag('of', msb((x ^ r) & (y ^ r)))
        self.flag('af', bit(x ^ y ^ r, 4))
        self.szp(r)

    def sub_flags(self, x, y, r, bin_=None):
        n = x.size()
        yy = z3.ZeroExt(1, y)
        if bin_ is not None:
            yy = yy + z3.ZeroExt(n, bin_)
        self.flag('cf', z3.ULT(z3.ZeroExt(1, x), yy))
        self.flag('of', msb((x ^ y) & (x ^ r)))
        self.flag('af', bit(x ^ y ^ r, 4))
        self.szp(r)

    def logic_flags(self, r):
        self.flag('cf', bv(0, 1))
        self.flag('of', bv(0, 1))
        self.szp(r)
        self.undef('af')

    def cond(self, cc):
        f = lambda n: self.pre(n, 1) == 1
        cf, zf, sf, of, pf = f('cf'), f('zf'), f('nf'), f('of'), f('pf')
        t = {'o': of, 'no': z3.Not(of), 'b': cf, 'c': cf, 'nae': cf, 'ae': z3.Not(cf), 'nb': z3.Not(cf), 'nc': z3.Not(cf),
             'e': zf, 'z': zf, 'ne': z3.Not(zf), 'nz': z3.Not(zf), 'be': z3.Or(cf, zf), 'na': z3.Or(cf, zf), 'a': z3.And(z3.Not(cf), z3.Not(zf)),
             'nbe': z3.And(z3.Not(cf), z3.Not(zf)), 's': sf, 'ns': z3.Not(sf), 'p': pf, 'pe': pf, 'np': z3.Not(pf), 'po': z3.Not(pf),
             'l': sf != of, 'nge': sf != of, 'ge': sf == of, 'nl': sf == of, 'le': z3.Or(zf, sf != of), 'ng': z3.Or(zf, sf != of),
             'g': z3.And(z3.Not(zf), sf == of), 'nle': z3.And(z3.Not(zf), sf == of)}
        if cc not in t:
            raise Unsupported('condition ' + cc)
        return t[cc]


def _count(S, cnt_e, n):
    """shift count masked to 5 bits, as an n-bit and as an 8-bit value"""
    c = S.rd(cnt_e)
    c5 = zx(z3.Extract(4, 0, c) if c.size() >= 5 else z3.ZeroExt(5 - c.size(), c), 8)
    return c5


def sem(name, S, args, info):
    """apply the reference semantics of mnemonic `name` with IR operands args; info: dict(opsize=16|32, l=len, prefixes)"""
    X = _X()
    a = args
    rd, wr = S.rd, S.wr
    osz = info.get('opsize', 32)

    if name == 'mov':
        for o in a:
            if isinstance(o, X.ExprId) and o.name not in GPR:
                raise Unsupported('mov with %s (segment / control / debug registers are outside the core)' % o.name)
        v = rd(a[1])
        n = ir2smt.size_of(a[0])
        if v.size() != n:
            if not isinstance(a[1], X.ExprInt):
                raise Unsupported('mov between operands of %d and %d bits' % (n, v.size()))
            v = zx(v, n)          # miasmX widens the immediate of a byte operation under the 0x66 prefix
        wr(a[0], v)
    elif name == 'movzx':
        wr(a[0], zx(rd(a[1]), ir2smt.size_of(a[0])))
    elif name == 'movsx':
        wr(a[0], sx(rd(a[1]), ir2smt.size_of(a[0])))
    elif name == 'lea':
        n = ir2smt.size_of(a[0])
        wr(a[0], zx(ir2smt.tr(a[1].arg, S.c), n))
    elif name == 'xchg':
        x, y = rd(a[0]), rd(a[1])
        wr(a[0], y)
        wr(a[1], x)
    elif name in ('add', 'adc', 'sub', 'sbb', 'cmp', 'xadd'):
        x, y = rd(a[0]), rd(a[1])
        cf = S.pre('cf', 1)
        if name == 'add' or name == 'xadd':
            r = x + y
            S.add_flags(x, y, r)
        elif name == 'adc':
            r = x + y + zx(cf, x.size())
            S.add_flags(x, y, r, cf)
        elif name in ('sub', 'cmp'):
            r = x - y
            S.sub_flags(x, y, r)
        else:
            r = x - y - zx(cf, x.size())
            S.sub_flags(x, y, r, cf)
        if name == 'xadd':
            wr(a[1], x)
        if name != 'cmp':
            wr(a[0], r)
    elif name in ('inc', 'dec'):
        x = rd(a[0])
        one = bv(1, x.size())
        r = x + one if name == 'inc' else x - one
        keep = S.pre('cf', 1)
        (S.add_flags if name == 'inc' else S.sub_flags)(x, one, r)
        S.flag('cf', keep)
        wr(a[0], r)
    elif name == 'neg':
        x = rd(a[0])
        r = -x
        S.sub_flags(bv(0, x.size()), x, r)
        wr(a[0], r)
    elif name == 'not':
        wr(a[0], ~rd(a[0]))
    elif name in ('and', 'or', 'xor', 'test'):
        x, y = rd(a[0]), rd(a[1])
        r = {'and': x & y, 'test': x & y, 'or': x | y, 'xor': x ^ y}[name]
        S.logic_flags(r)
        if name != 'test':
            wr(a[0], r)
    elif name in ('shl', 'sal', 'shr', 'sar'):
        x = rd(a[0])
        n = x.size()
        c8 = _count(S, a[1], n)
        c = zx(c8, n)
        zero = c8 == 0
        if name in ('shl', 'sal'):
            r = x << c
            cfv = z3.Extract(0, 0, z3.LShR(x, bv(n, n) - c))
            cdef = z3.ULT(c8, n)
            ofv = msb(r) ^ cfv
        elif name == 'shr':
            r = z3.LShR(x, c)
            cfv = z3.Extract(0, 0, z3.LShR(x, c - 1))
            cdef = z3.ULT(c8, n)
            ofv = msb(x)
        else:
            r = x >> c
            cfv = z3.Extract(0, 0, z3.If(z3.UGE(c8, n), x >> bv(n - 1, n), x >> (c - 1)))
            cdef = z3.BoolVal(True)
            ofv = bv(0, 1)
        S.szp(r)
        S.flag('cf', cfv, defined=z3.Or(zero, cdef))
        S.flag('of', ofv, defined=z3.Or(zero, c8 == 1))
        S.flag('af', S.pre('af', 1), defined=zero)
        S.keep_if(zero, ['cf', 'of', 'zf', 'nf', 'pf'])
        wr(a[0], r)
    elif name in ('rol', 'ror'):
        x = rd(a[0])
        n = x.size()
        c8 = _count(S, a[1], n)
        zero = c8 == 0
        cm = zx(z3.URem(c8, bv(n, 8)), n)
        r = z3.RotateLeft(x, cm) if name == 'rol' else z3.RotateRight(x, cm)
        if name == 'rol':
            cfv = bit(r, 0)
            ofv = msb(r) ^ cfv
        else:
            cfv = msb(r)
            ofv = msb(r) ^ bit(r, n - 2)
        S.flag('cf', cfv)
        S.flag('of', ofv, defined=z3.Or(zero, c8 == 1))
        S.keep_if(zero, ['cf', 'of'])
        wr(a[0], r)
    elif name in ('rcl', 'rcr'):
        x = rd(a[0])
        n = x.size()
        c8 = _count(S, a[1], n)
        cm = z3.URem(c8, bv(n + 1, 8))
        w = z3.Concat(S.pre('cf', 1), x)
        k = zx(cm, n + 1)
        rw = z3.RotateLeft(w, k) if name == 'rcl' else z3.RotateRight(w, k)
        r = z3.Extract(n - 1, 0, rw)
        cfv = bit(rw, n)
        S.flag('cf', cfv)
        if name == 'rcl':
            ofv = msb(r) ^ cfv
        else:
            ofv = msb(r) ^ bit(r, n - 2)
        S.flag('of', ofv, defined=z3.Or(c8 == 0, c8 == 1))
        S.keep_if(c8 == 0, ['of'])
        wr(a[0], r)
    elif name in ('shld', 'shrd', 'shld_cl', 'shrd_cl'):
        x, y = rd(a[0]), rd(a[1])
        n = x.size()
        cnt_e = a[2] if len(a) > 2 else X.ExprSlice(X.ExprId('ecx', 32), 0, 8)
        c8 = _count(S, cnt_e, n)
        c = zx(c8, n)
        zero = c8 == 0
        okc = z3.ULE(c8, n)
        if name.startswith('shld'):
            r = (x << c) | z3.LShR(y, bv(n, n) - c)
            cfv = z3.Extract(0, 0, z3.LShR(x, bv(n, n) - c))
        else:
            r = z3.LShR(x, c) | (y << (bv(n, n) - c))
            cfv = z3.Extract(0, 0, z3.LShR(x, c - 1))
        r = z3.If(zero, x, r)
        S.szp(r)
        S.flag('cf', cfv, defined=z3.Or(zero, okc))
        S.flag('of', msb(r) ^ msb(x), defined=z3.Or(zero, c8 == 1))
        S.flag('af', S.pre('af', 1), defined=zero)
        for k in ('zf', 'nf', 'pf'):
            S.defined[(k, 1)] = z3.Or(zero, okc)
        S.keep_if(zero, ['cf', 'of', 'zf', 'nf', 'pf'])
        wr(a[0], r, defined=z3.Or(zero, okc))
    elif name == 'mul' or (name == 'imul' and len(a) == 1):
        s = rd(a[0])
        n = s.size()
        acc = z3.Extract(n - 1, 0, S.pre('eax'))
        ext = z3.ZeroExt if name == 'mul' else z3.SignExt
        p = ext(n, acc) * ext(n, s)
        lo, hi = z3.Extract(n - 1, 0, p), z3.Extract(2 * n - 1, n, p)
        if n == 8:
            S.set('eax', z3.Concat(z3.Extract(31, 16, S.pre('eax')), p))
        elif n == 16:
            S.set('eax', z3.Concat(z3.Extract(31, 16, S.pre('eax')), lo))
            S.set('edx', z3.Concat(z3.Extract(31, 16, S.pre('edx')), hi))
        else:
            S.set('eax', lo)
            S.set('edx', hi)
        ov = (hi != 0) if name == 'mul' else (p != z3.SignExt(n, lo))
        S.flag('cf', ov)
        S.flag('of', ov)
        S.undef('zf', 'nf', 'pf', 'af')
    elif name == 'imul':
        if len(a) == 2:
            x, y = rd(a[0]), rd(a[1])
        else:
            x, y = rd(a[1]), rd(a[2])
        n = ir2smt.size_of(a[0])
        x, y = sx(x, n), sx(y, n)
        p = z3.SignExt(n, x) * z3.SignExt(n, y)
        lo = z3.Extract(n - 1, 0, p)
        ov = p != z3.SignExt(n, lo)
        wr(a[0], lo)
        S.flag('cf', ov)
        S.flag('of', ov)
        S.undef('zf', 'nf', 'pf', 'af')
    elif name in ('div', 'idiv'):
        s = rd(a[0])
        n = s.size()
        eax, edx = S.pre('eax'), S.pre('edx')
        if n == 8:
            big = z3.Extract(15, 0, eax)
        elif n == 16:
            big = z3.Concat(z3.Extract(15, 0, edx), z3.Extract(15, 0, eax))
        else:
            big = z3.Concat(edx, eax)
        if name == 'div':
            d = z3.ZeroExt(n, s)
            q, r = z3.UDiv(big, d), z3.URem(big, d)
            S.assume += [s != 0, z3.ULE(q, bv((1 << n) - 1, 2 * n))]
        else:
            d = z3.SignExt(n, s)
            q, r = big / d, z3.SRem(big, d)
            S.assume += [s != 0, q >= bv(-(1 << (n - 1)) % (1 << 2 * n), 2 * n), q <= bv((1 << (n - 1)) - 1, 2 * n),
                         z3.Not(z3.And(big == bv(1 << (2 * n - 1), 2 * n), d == bv(-1 % (1 << 2 * n), 2 * n)))]
        ql, rl = z3.Extract(n - 1, 0, q), z3.Extract(n - 1, 0, r)
        if n == 8:
            S.set('eax', z3.Concat(z3.Extract(31, 16, eax), rl, ql))
        elif n == 16:
            S.set('eax', z3.Concat(z3.Extract(31, 16, eax), ql))
            S.set('edx', z3.Concat(z3.Extract(31, 16, edx), rl))
        else:
            S.set('eax', ql)
            S.set('edx', rl)
        S.undef('cf', 'of', 'zf', 'nf', 'pf', 'af')
    elif name in ('bt', 'bts', 'btr', 'btc'):
        dst, idx = a[0], rd(a[1])
        n = ir2smt.size_of(dst)
        if isinstance(dst, X.ExprMem) and not isinstance(a[1], X.ExprInt):
            # bit string addressing: the index selects a byte relative to the base
            base = S.addr_of(dst)
            off = sx(idx, 32)
            ad = base + ((off >> bv(5 if n == 32 else 4, 32)) << bv(2 if n == 32 else 1, 32))
            x = S.rdmem(ad, n // 8)
            k = zx(idx, n) & bv(n - 1, n)
            sel = bv(1, n) << k
            S.flag('cf', (x & sel) != 0)
            r = {'bt': x, 'bts': x | sel, 'btr': x & ~sel, 'btc': x ^ sel}[name]
            if name != 'bt':
                S.store(ad, r)
        else:
            x = rd(dst)
            k = zx(idx, n) & bv(n - 1, n)
            sel = bv(1, n) << k
            S.flag('cf', (x & sel) != 0)
            r = {'bt': x, 'bts': x | sel, 'btr': x & ~sel, 'btc': x ^ sel}[name]
            if name != 'bt':
                wr(dst, r)
        S.undef('of', 'nf', 'af', 'pf')
    elif name in ('bsf', 'bsr'):
        s = rd(a[1])
        n = s.size()
        r = bv(0, n)
        rng = range(n - 1, -1, -1) if name == 'bsf' else range(n)
        for i in rng:
            r = z3.If(bit(s, i) == 1, bv(i, n), r)
        S.flag('zf', s == 0)
        wr(a[0], z3.If(s == 0, rd(a[0]), r), defined=(s != 0))
        S.undef('cf', 'of', 'nf', 'af', 'pf')
    elif name in ('cbw', 'cwde', 'cwd', 'cdq'):
        eax, edx = S.pre('eax'), S.pre('edx')
        if name == 'cbw':
            S.set('eax', z3.Concat(z3.Extract(31, 16, eax), z3.SignExt(8, z3.Extract(7, 0, eax))))
        elif name == 'cwde':
            S.set('eax', z3.SignExt(16, z3.Extract(15, 0, eax)))
        elif name == 'cwd':
            S.set('edx', z3.Concat(z3.Extract(31, 16, edx), z3.If(bit(eax, 15) == 1, bv(0xffff, 16), bv(0, 16))))
        else:
            S.set('edx', z3.If(bit(eax, 31) == 1, bv(0xffffffff, 32), bv(0, 32)))
    elif name in ('clc', 'stc', 'cmc', 'cld', 'std'):
        if name == 'clc':
            S.flag('cf', bv(0, 1))
        elif name == 'stc':
            S.flag('cf', bv(1, 1))
        elif name == 'cmc':
            S.flag('cf', ~S.pre('cf', 1))
        elif name == 'cld':
            S.flag('df', bv(0, 1))
        else:
            S.flag('df', bv(1, 1))
    elif name == 'lahf':
        f = lambda n_: S.pre(n_, 1)
        ah = z3.Concat(f('nf'), f('zf'), bv(0, 1), f('af'), bv(0, 1), f('pf'), bv(1, 1), f('cf'))
        eax = S.pre('eax')
        S.set('eax', z3.Concat(z3.Extract(31, 16, eax), ah, z3.Extract(7, 0, eax)))
    elif name == 'sahf':
        ah = z3.Extract(15, 8, S.pre('eax'))
        S.flag('nf', bit(ah, 7))
        S.flag('zf', bit(ah, 6))
        S.flag('af', bit(ah, 4))
        S.flag('pf', bit(ah, 2))
        S.flag('cf', bit(ah, 0))
    elif name.startswith('set') and name != 'setalc':
        n = ir2smt.size_of(a[0])
        wr(a[0], z3.If(S.cond(name[3:]), bv(1, n), bv(0, n)))
    elif name.startswith('cmov'):
        wr(a[0], z3.If(S.cond(name[4:]), rd(a[1]), rd(a[0])))
    elif name == 'cmpxchg':
        dst, src = a[0], a[1]
        d = rd(dst)
        n = d.size()
        acc = z3.Extract(n - 1, 0, S.pre('eax'))
        S.sub_flags(acc, d, acc - d)
        eq = acc == d
        wr(dst, z3.If(eq, rd(src), d))
        eax = S.pre('eax')
        newacc = z3.If(eq, acc, d)
        S.set('eax', newacc if n == 32 else z3.Concat(z3.Extract(31, n, eax), newacc))
    elif name == 'bswap':
        x = rd(a[0])
        wr(a[0], z3.Concat(z3.Extract(7, 0, x), z3.Extract(15, 8, x), z3.Extract(23, 16, x), z3.Extract(31, 24, x)))
    elif name == 'push':
        v = rd(a[0])
        nb = osz // 8 if v.size() not in (16, 32) else v.size() // 8
        if isinstance(a[0], X.ExprInt):
            nb = osz // 8
            v = sx(v, osz)
        if isinstance(a[0], X.ExprId) and a[0].size == 16 and a[0].name in ('es', 'cs', 'ss', 'ds', 'fs', 'gs'):
            nb = osz // 8          # the stack pointer moves by the operand size, only 16 bits are written
        esp = S.pre('esp') - bv(nb, 32)
        S.store(esp, v)
        S.set('esp', esp)
    elif name == 'pop':
        n = ir2smt.size_of(a[0])
        nb = n // 8
        if isinstance(a[0], X.ExprId) and a[0].size == 16 and a[0].name in ('es', 'cs', 'ss', 'ds', 'fs', 'gs'):
            nb = osz // 8
        esp = S.pre('esp')
        v = z3.Extract(n - 1, 0, S.rdmem(esp, nb))
        S.set('esp', esp + bv(nb, 32))
        if isinstance(a[0], X.ExprMem):
            # the address of the destination is computed with the incremented esp
            c2 = ir2smt.Ctx(strict=False, flat=True)
            c2.ids = dict(S.c.ids)
            c2.ids[('esp', 32)] = esp + bv(nb, 32)
            c2.mem = S.c.mem
            ad = zx(ir2smt.tr(a[0].arg, c2), 32)
            for k_, v_ in c2.ids.items():
                if k_ not in S.c.ids:
                    S.c.ids[k_] = v_
            S.store(ad, v)
        else:
            wr(a[0], v)
    elif name == 'leave':
        ebp = S.pre('ebp')
        S.set('ebp', S.rdmem(ebp, 4))
        S.set('esp', ebp + bv(4, 32))
    elif name == 'nop':
        pass
    elif name in ('movsb', 'movsw', 'movsd', 'stosb', 'stosw', 'stosd', 'lodsb', 'lodsw', 'lodsd', 'cmpsb', 'cmpsw', 'cmpsd', 'scasb', 'scasw', 'scasd'):
        n = {'b': 8, 'w': 16, 'd': 32}[name[-1]]
        nb = n // 8
        df = S.pre('df', 1) == 1
        step = z3.If(df, bv(-nb % (1 << 32), 32), bv(nb, 32))
        esi_full, edi_full = S.pre('esi'), S.pre('edi')
        a16 = info.get('adsize', 32) == 16
        # address-size prefix: si / di address the operands and only their low words are updated
        esi = z3.ZeroExt(16, z3.Extract(15, 0, esi_full)) if a16 else esi_full
        edi = z3.ZeroExt(16, z3.Extract(15, 0, edi_full)) if a16 else edi_full

        def adv(full):
            if a16:
                return z3.Concat(z3.Extract(31, 16, full), z3.Extract(15, 0, full + step))
            return full + step
        acc = z3.Extract(n - 1, 0, S.pre('eax'))
        stem = name[:-1]
        if stem == 'movs':
            S.store(edi, S.rdmem(esi, nb))
            S.set('esi', adv(esi_full))
            S.set('edi', adv(edi_full))
        elif stem == 'stos':
            S.store(edi, acc)
            S.set('edi', adv(edi_full))
        elif stem == 'lods':
            v = S.rdmem(esi, nb)
            eax = S.pre('eax')
            S.set('eax', v if n == 32 else z3.Concat(z3.Extract(31, n, eax), v))
            S.set('esi', adv(esi_full))
        elif stem == 'cmps':
            x, y = S.rdmem(esi, nb), S.rdmem(edi, nb)
            S.sub_flags(x, y, x - y)
            S.set('esi', adv(esi_full))
            S.set('edi', adv(edi_full))
        else:
            y = S.rdmem(edi, nb)
            S.sub_flags(acc, y, acc - y)
            S.set('edi', adv(edi_full))
    elif name == 'jmp':
        S.eip = zx(rd(a[0]), 32)
    elif name == 'call':
        tgt = zx(rd(a[1]), 32) if len(a) > 1 else zx(rd(a[0]), 32)
        esp = S.pre('esp') - bv(osz // 8, 32)
        S.store(esp, z3.Extract(osz - 1, 0, S.next_eip))
        S.set('esp', esp)
        S.eip = tgt
    elif name == 'ret':
        esp = S.pre('esp')
        S.eip = zx(S.rdmem(esp, osz // 8), 32)
        extra = zx(rd(a[0]), 32) if a else bv(0, 32)
        S.set('esp', esp + bv(osz // 8, 32) + extra)
    elif name in ('loop', 'loope', 'loopne', 'jecxz'):
        ecx = S.pre('ecx')
        dst = zx(rd(a[-1]), 32)
        a16 = info.get('adsize', 32) == 16          # address-size prefix: the counter is cx
        if name == 'jecxz':
            taken = (z3.Extract(15, 0, ecx) == 0) if a16 else (ecx == 0)
        else:
            n2 = ecx - 1
            if a16:
                n2 = z3.Concat(z3.Extract(31, 16, ecx), z3.Extract(15, 0, ecx) - 1)
            S.set('ecx', n2)
            taken = (z3.Extract(15, 0, n2) != 0) if a16 else (n2 != 0)
            if name == 'loope':
                taken = z3.And(taken, S.pre('zf', 1) == 1)
            elif name == 'loopne':
                taken = z3.And(taken, S.pre('zf', 1) == 0)
        S.eip = z3.If(taken, dst, S.next_eip)
    elif name.startswith('j') and name not in ('jmp', 'jmpf'):
        dst = zx(rd(a[-1]), 32)
        S.eip = z3.If(S.cond(name[1:]), dst, S.next_eip)
    else:
        raise Unsupported(name)
    return S


CORE = set('''mov movzx movsx lea xchg add adc sub sbb cmp xadd inc dec neg not and or xor test shl sal shr sar rol ror rcl rcr
shld shrd mul imul div idiv bt bts btr btc bsf bsr cbw cwde cwd cdq clc stc cmc cld std lahf sahf cmpxchg bswap push pop leave nop
movsb movsw movsd stosb stosw stosd lodsb lodsw lodsd cmpsb cmpsw cmpsd scasb scasw scasd jmp call ret loop loope loopne jecxz'''.split())


def in_core(name):
    if name in CORE:
        return True
    if name.startswith('set') and name != 'setalc':
        return True
    if name.startswith('cmov'):
        return True
    if name.startswith('j') and name not in ('jmp', 'jmpf'):
        return True
    return False
