"""Expression shapes (picklable nested tuples) and their instantiation into real miasmX Expr objects.

shape :=  ('id', name, size) | ('int', k, size) | ('cint', value, size) | ('mem', shape, size)
        | ('op', opname, (shape, ...)) | ('cond', c, a, b) | ('slice', x, start, stop)
        | ('compose', ((x, start, stop), ...))
('int', k, size) is the k-th *symbolic* constant of the shape (an E2 SInt over the full range of the width).
"""
import itertools
import random
import sys

ASSOC = ['+', '*', '^', '&', '|']
BINARY = ['+', '*', '^', '&', '|', '-', '<<', '>>', 'a>>', '<<<', '>>>', '==']
UNARY = ['-', 'parity']
WIDTHS = [1, 8, 16, 32, 64]


def width(s):
    k = s[0]
    if k in ('id', 'int', 'cint', 'mem'):
        return s[2]
    if k == 'op':
        return width(s[2][0])
    if k == 'cond':
        return width(s[2])
    if k == 'slice':
        return s[3] - s[2]
    if k == 'compose':
        return max(x[2] for x in s[1]) - min(x[1] for x in s[1])
    raise ValueError(s)


def ints_of(s, acc=None):
    """list of (k, size) of the symbolic constants in s"""
    if acc is None:
        acc = []
    k = s[0]
    if k == 'int':
        if (s[1], s[2]) not in acc:
            acc.append((s[1], s[2]))
    elif k == 'mem':
        ints_of(s[1], acc)
    elif k == 'op':
        for x in s[2]:
            ints_of(x, acc)
    elif k == 'cond':
        for x in s[1:]:
            ints_of(x, acc)
    elif k == 'slice':
        ints_of(s[1], acc)
    elif k == 'compose':
        for x in s[1]:
            ints_of(x[0], acc)
    return acc


def renumber(s):
    """give every 'int' leaf its own index, left to right"""
    cnt = [0]

    def go(s):
        k = s[0]
        if k == 'int':
            cnt[0] += 1
            return ('int', cnt[0] - 1, s[2])
        if k in ('id', 'cint'):
            return s
        if k == 'mem':
            return ('mem', go(s[1]), s[2])
        if k == 'op':
            return ('op', s[1], tuple(go(x) for x in s[2]))
        if k == 'cond':
            return ('cond', go(s[1]), go(s[2]), go(s[3]))
        if k == 'slice':
            return ('slice', go(s[1]), s[2], s[3])
        if k == 'compose':
            return ('compose', tuple((go(x[0]), x[1], x[2]) for x in s[1]))
        raise ValueError(s)
    return go(s)


def show(s):
    k = s[0]
    if k == 'id':
        return '%s%d' % (s[1], s[2]) if s[2] != 32 else s[1]
    if k == 'int':
        return 'K%d:%d' % (s[1], s[2])
    if k == 'cint':
        return '0x%x:%d' % (s[1], s[2])
    if k == 'mem':
        return '@%d[%s]' % (s[2], show(s[1]))
    if k == 'op':
        if len(s[2]) == 1:
            return '(%s %s)' % (s[1], show(s[2][0]))
        return '(' + (' %s ' % s[1]).join(show(x) for x in s[2]) + ')'
    if k == 'cond':
        return '(%s ? %s : %s)' % (show(s[1]), show(s[2]), show(s[3]))
    if k == 'slice':
        return '%s[%d:%d]' % (show(s[1]), s[2], s[3])
    if k == 'compose':
        return '{' + ', '.join('%s@%d:%d' % (show(x[0]), x[1], x[2]) for x in s[1]) + '}'
    return repr(s)


# -------------------------------------------------------------------------------------------------
# instantiation
# -------------------------------------------------------------------------------------------------
def build(s, consts, X=None, M=None):
    """shape -> Expr; consts: dict k -> python int or SInt"""
    X = X or sys.modules['miasmx.expression.expression']
    M = M or sys.modules['miasmx.tools.modint']
    ucls = {1: M.uint1, 8: M.uint8, 16: M.uint16, 32: M.uint32, 64: M.uint64}

    def go(s):
        k = s[0]
        if k == 'id':
            return X.ExprId(s[1], s[2])
        if k == 'int':
            return X.ExprInt(ucls[s[2]](consts[s[1]]))
        if k == 'cint':
            return X.ExprInt(ucls[s[2]](s[1]))
        if k == 'mem':
            return X.ExprMem(go(s[1]), s[2])
        if k == 'op':
            return X.ExprOp(s[1], *[go(x) for x in s[2]])
        if k == 'cond':
            return X.ExprCond(go(s[1]), go(s[2]), go(s[3]))
        if k == 'slice':
            return X.ExprSlice(go(s[1]), s[2], s[3])
        if k == 'compose':
            return X.ExprCompose([(go(x[0]), x[1], x[2]) for x in s[1]])
        raise ValueError(s)
    return go(s)


# -------------------------------------------------------------------------------------------------
# enumeration
# -------------------------------------------------------------------------------------------------
def leaves(n, rich=False):
    out = [('id', 'a', n), ('id', 'b', n), ('int', 0, n)]
    if rich:
        out.append(('op', '-', (('id', 'a', n),)))
        if n >= 8:
            out.append(('mem', ('id', 'p', 32), n))
    return out


def depth1(n, rich=False):
    L = leaves(n, rich)
    out = []
    for op in BINARY:
        for x in L:
            for y in L:
                out.append(('op', op, (x, y)))
    # narrower shift / rotate counts (the lifter uses 8-bit counts)
    if n > 8:
        for op in ('<<', '>>', 'a>>', '<<<', '>>>'):
            for y in (('id', 'c', 8), ('int', 0, 8)):
                out.append(('op', op, (('id', 'a', n), y)))
    for op in ASSOC:
        for xs in itertools.product(L[:3], repeat=3):
            out.append(('op', op, xs))
    for op in UNARY:
        for x in L:
            out.append(('op', op, (x,)))
    for c in L:
        for x in L[:3]:
            for y in L[:3]:
                out.append(('cond', c, x, y))
    if n >= 16:
        h = n // 2
        for x in L:
            out.append(('slice', x, 0, h))
            out.append(('slice', x, h, n))
            out.append(('slice', x, 0, n))
        if n >= 32:
            out.append(('slice', ('id', 'a', n), 8, 16))
            out.append(('slice', ('int', 0, n), 8, 16))
        a, b, k = L[0], L[1], L[2]
        for lo in (('slice', a, 0, h), ('slice', b, 0, h), ('slice', k, 0, h), ('slice', a, h, n), ('id', 'x', h), ('int', 0, h)):
            for hi in (('slice', a, h, n), ('slice', b, h, n), ('slice', k, h, n), ('slice', a, 0, h), ('id', 'y', h), ('int', 1, h)):
                out.append(('compose', ((lo, 0, h), (hi, h, n))))
    return out


def depth2(n, rich=False, inner=None):
    L = leaves(n)
    D1 = inner if inner is not None else depth1(n, rich)
    out = []
    for d in D1:
        if width(d) != n:
            continue
        for op in BINARY:
            for y in L:
                out.append(('op', op, (d, y)))
                out.append(('op', op, (y, d)))
        for op in UNARY:
            out.append(('op', op, (d,)))
        out.append(('cond', d, L[0], L[1]))
        out.append(('cond', L[0], d, L[2]))
        if n >= 16:
            out.append(('slice', d, 0, n // 2))
            out.append(('slice', d, n // 2, n))
    # slices of narrower results recombined
    for d in D1:
        w = width(d)
        if w != n and 2 * w == n:
            out.append(('compose', ((d, 0, w), (('id', 'y', w), w, n))))
            out.append(('compose', ((('id', 'x', w), 0, w), (d, w, n))))
    return out


def rule_templates(n):
    """one or more shapes per rewrite rule of _expr_simp (so every rule is exercised at every width)"""
    a, b, c = ('id', 'a', n), ('id', 'b', n), ('id', 'c', n)
    K = lambda i: ('int', i, n)
    neg = lambda x: ('op', '-', (x,))
    O = lambda op, *xs: ('op', op, tuple(xs))
    T = []
    for op in ASSOC:
        T += [O(op, O(op, a, b), c), O(op, a, O(op, b, c)), O(op, O(op, a, K(0)), K(1)), O(op, K(0), O(op, K(1), a)),
              O(op, K(0), K(1)), O(op, K(0), K(1), K(2)), O(op, O(op, a, K(0)), O(op, b, K(1))), O(op, a, b, a),
              O(op, a, K(0), a, K(1)), O(op, O(op, a, b), O(op, b, a))]
    for op in ('<<', '>>'):
        T += [O(op, K(0), K(1)), O(op, a, K(0)), O(op, O(op, a, K(0)), K(1)), O(op, O('&', a, K(0)), K(1)),
              O(op, O('&', a, b, K(0)), K(1)), O(op, O('&', K(0), a), K(1)), O(op, O('|', a, K(0)), K(1))]
    T += [neg(neg(a)), neg(K(0)), O('-', a, K(0)), O('-', K(0), a), O('-', a, b), O('-', K(0), K(1)), neg(O('+', a, b)),
          neg(O('+', a, K(0))), neg(O('+', a, neg(b))), O('+', a, neg(a)), O('+', neg(a), a), O('+', a, b, neg(a)),
          O('+', neg(a), b, a, K(0)), O('-', O('+', a, b), a), O('-', a, a), O('^', a, a), O('^', a, b, a), O('|', a, a),
          O('&', a, a), O('&', a, b, a), O('|', a, K(0), a)]
    for op in ('<<<', '>>>'):
        for op2 in ('<<<', '>>>'):
            T += [O(op, O(op2, a, K(0)), K(1)), O(op, O(op2, a, b), c), O(op, O(op2, a, b), K(0)), O(op, O(op2, a, K(0)), b)]
        T += [O(op, a, K(0)), O(op, a, ('cint', n, n) if n > 1 else K(0)), O(op, K(0), K(1)), O(op, a, ('cint', 0, n))]
    T += [O('==', K(0), K(1)), O('==', a, K(0)), O('==', O('|', a, K(0)), K(1)), O('==', O('|', a, K(0)), ('cint', 0, n)),
          O('==', O('|', a, b, K(0)), ('cint', 0, n)), O('==', O('|', K(0), a), ('cint', 0, n)), O('==', a, a),
          O('parity', K(0)), O('parity', a), O('parity', O('&', a, K(0)))]
    T += [('cond', neg(a), b, c), ('cond', K(0), a, b), ('cond', a, K(0), K(1)), ('cond', neg(neg(a)), b, c),
          ('cond', O('==', K(0), K(1)), a, b), ('cond', a, b, b)]
    if n >= 16:
        h, q = n // 2, n // 4
        sl = lambda x, s, t: ('slice', x, s, t)
        T += [sl(a, 0, n), sl(K(0), 0, h), sl(K(0), h, n), sl(K(0), q, q + h) if q + h <= n else sl(K(0), 0, h),
              sl(sl(a, 0, h), 0, q), sl(sl(a, h, n), 0, q), sl(sl(a, q, n), q, h) if h - q > 0 else sl(a, 0, h),
              sl(('compose', ((sl(a, 0, h), 0, h), (sl(b, h, n), h, n))), 0, h),
              sl(('compose', ((sl(a, 0, h), 0, h), (sl(b, h, n), h, n))), h, n),
              sl(('compose', ((sl(a, 0, h), 0, h), (sl(b, h, n), h, n))), q, h),
              ('compose', ((sl(a, 0, h), 0, h), (sl(a, h, n), h, n))),
              ('compose', ((sl(a, h, n), 0, h), (sl(a, 0, h), h, n))),
              ('compose', ((sl(K(0), 0, h), 0, h), (sl(K(1), 0, h), h, n))),
              ('compose', ((('int', 0, h), 0, h), (('int', 1, h), h, n))),
              ('compose', ((('int', 0, h), 0, h), (sl(a, h, n), h, n))),
              ('compose', ((sl(a, 0, q), 0, q), (sl(a, q, h), q, h), (sl(a, h, n), h, n))),
              ('compose', ((sl(a, 0, q), 0, q), (('int', 0, q), q, h), (('int', 1, h), h, n))),
              ('compose', ((a, 0, n),)),
              ('compose', ((sl(a, 0, h), 0, h), (('cond', b, ('int', 0, h), ('int', 1, h)), h, n)))]
        # two / three slices of ONE source in neighbouring slots that are NOT contiguous in the source (gap, overlap, repeated
        # window, gap in a wider source, gap then contiguous): none of them may merge into one slice
        e8 = max(n // 8, 1)
        Z = ('id', 'z', 2 * n)
        T += [('compose', ((sl(a, 0, q), 0, q), (sl(a, h, h + q), q, h))),
              ('compose', ((sl(a, 0, q), 0, q), (sl(a, h, h + q), q, h), (sl(b, 0, h), h, n))),
              ('compose', ((sl(a, 0, h), 0, h), (sl(a, h - e8, n - e8), h, n))),
              ('compose', ((sl(a, 0, h), 0, h), (sl(a, 0, h), h, n))),
              ('compose', ((sl(Z, 0, h), 0, h), (sl(Z, n, n + h), h, n))),
              ('compose', ((sl(Z, 0, q), 0, q), (sl(Z, q + e8, h + e8), q, h), (sl(Z, h + e8, n + e8), h, n)))]
        # every kind of slot content in every position (2 slots), and a 3-slot mix
        def slot(kind, i, w, lo):
            if kind == 's':
                return sl(a if i == 0 else b, lo, lo + w)
            if kind == 'k':
                return ('int', i, w)
            if kind == 'c':
                return ('cond', c, ('int', 10 + i, w), ('int', 20 + i, w))
            return ('id', 'xy'[i % 2] + str(w), w)
        for k0 in 'skci':
            for k1 in 'skci':
                T.append(('compose', ((slot(k0, 0, h, 0), 0, h), (slot(k1, 1, h, h), h, n))))
        if q in WIDTHS:
            for ks in ('kck', 'ckk', 'kkc', 'sck', 'ksc', 'cks', 'kik'):
                T.append(('compose', ((slot(ks[0], 0, q, 0), 0, q), (slot(ks[1], 1, q, q), q, h), (slot(ks[2], 2, h, h), h, n))))
        if n >= 16:
            T += [sl(('mem', ('id', 'p', 32), n), 0, h), sl(('mem', ('id', 'p', 32), n), h, n),
                  sl(('mem', ('id', 'p', 32), n), 0, 8) if n > 8 else sl(a, 0, h),
                  ('mem', O('+', ('id', 'p', 32), ('int', 0, 32)), n), ('mem', O('+', O('+', ('id', 'p', 32), ('int', 0, 32)), ('int', 1, 32)), n)]
    return T


def slice_compose_shapes():
    """slices of a concatenation: inside one slot, exactly one slot, across two or three slots, from the middle of one slot to the
    middle of another (rules that rebase a slice onto a component must check both ends)"""
    out = []
    a8, b8, c16 = ('id', 'a', 8), ('id', 'b', 8), ('id', 'c', 16)
    layouts = [((a8, 0, 8), (b8, 8, 16), (c16, 16, 32)),
               ((c16, 0, 16), (a8, 16, 24), (b8, 24, 32)),
               ((('int', 0, 8), 0, 8), (b8, 8, 16), (c16, 16, 32)),
               ((a8, 0, 8), (('mem', ('id', 'p', 32), 8), 8, 16), (c16, 16, 32)),
               ((('slice', ('id', 'x', 32), 0, 16), 0, 16), (('slice', ('id', 'x', 32), 16, 32), 16, 32))]
    bounds = [(0, 4), (0, 8), (0, 12), (4, 8), (4, 12), (4, 20), (8, 16), (8, 24), (12, 20), (0, 16), (8, 32), (15, 17), (16, 32), (20, 28), (0, 32), (1, 31)]
    for lay in layouts:
        for lo, hi in bounds:
            out.append(('slice', ('compose', lay), lo, hi))
    return out


def slice_window_shapes():
    """every byte-aligned window (and a few unaligned ones) of every kind of operand a slice rule looks through: identifier,
    constant, memory read, negation, sum, shift, conditional, slice - the rules that narrow or rebase a slice must get both
    the offset and the width right, not only for the low / high halves"""
    out = []
    for n in (32, 64, 16):
        a, b, k = ('id', 'a', n), ('id', 'b', n), ('int', 0, n)
        p = ('id', 'p', 32)
        ops = [a, k, ('mem', p, n), ('mem', ('op', '+', (p, ('int', 1, 32))), n), ('op', '-', (a,)), ('op', '+', (a, b)), ('op', '^', (a, k)),
               ('op', '<<', (a, k)), ('op', '>>', (a, k)), ('cond', b, a, k)]
        if n == 64:
            ops = ops[:4]
        if n == 32:
            ops.append(('slice', ('id', 'z', 64), 16, 48))
            ops.append(('slice', ('mem', p, 64), 8, 40))
        wins = [(s0, s1) for s0 in range(0, n, 8) for s1 in range(s0 + 8, n + 1, 8)]
        wins += [(4, 12), (1, 9), (7, n - 7), (0, 1), (n - 1, n)]
        for x in ops:
            for (s0, s1) in wins:
                out.append(('slice', x, s0, s1))
    return out


def c05_shapes(tier, seed, widths=None):
    """list of (name, shape)"""
    rnd = random.Random(seed)
    out = list(slice_compose_shapes()) + list(slice_window_shapes()) if (widths is None or 32 in widths) else []
    ws = widths or ([32, 8, 16, 64, 1])
    for n in ws:
        for s in rule_templates(n):
            out.append(s)
        d1 = depth1(n, rich=(tier == 'thorough'))
        out += d1
        if tier == 'thorough':
            d2 = depth2(n, rich=False)
            out += d2
        else:
            if n in (32, 8):
                d2 = depth2(n, rich=False)
                rnd.shuffle(d2)
                out += d2[:700 if n == 32 else 350]
    res = []
    seen = set()
    for s in out:
        s = renumber(s)
        if any(sz not in WIDTHS for _, sz in ints_of(s)):
            continue
        if s in seen:
            continue
        seen.add(s)
        res.append(s)
    return res
