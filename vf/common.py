"""Shared runner pieces: worker pool, evidence writer, known findings, replay on the real code."""
import hashlib
import json
import multiprocessing as mp
import os
import subprocess
import sys
import time
import traceback

VERIF = os.path.dirname(os.path.dirname(os.path.abspath(__file__)))
REPO = os.environ.get('VERIF_REPO', '/repo')
REAL_PY = '/verif/.venv/bin/python'   # created by setup.sh: the repository's interpreter (/venv/bin/python) + z3; miasmx NOT instrumented
EXIT_OK, EXIT_VIOLATION, EXIT_HARNESS = 0, 1, 3


def env_setup():
    """private TMPDIR (PLY caches parser tables in tempfile.gettempdir()), repo on the path"""
    tmp = os.path.join(VERIF, '.cache', 'tmp', str(os.getpid()))
    os.makedirs(tmp, exist_ok=True)
    os.environ['TMPDIR'] = tmp
    import tempfile
    tempfile.tempdir = tmp
    if REPO not in sys.path:
        sys.path.insert(0, REPO)
    os.environ['PYTHONPATH'] = REPO + os.pathsep + VERIF
    os.environ['PYTHONDONTWRITEBYTECODE'] = '1'
    os.environ['PYTHONHASHSEED'] = '0'       # inherited by the spawned workers
    return tmp


def cleanup_tmp():
    import shutil
    tmp = os.path.join(VERIF, '.cache', 'tmp', str(os.getpid()))
    shutil.rmtree(tmp, ignore_errors=True)


# -------------------------------------------------------------------------------------------------
# worker pool
# -------------------------------------------------------------------------------------------------
def _worker_init(modname, tmpdir):
    os.environ['TMPDIR'] = tmpdir
    import tempfile
    tempfile.tempdir = tmpdir
    if REPO not in sys.path:
        sys.path.insert(0, REPO)
    if VERIF not in sys.path:
        sys.path.insert(0, VERIF)
    import faulthandler
    faulthandler.enable()
    sys.setrecursionlimit(10000)
    import importlib
    global _MOD
    _MOD = importlib.import_module(modname)
    if hasattr(_MOD, 'worker_init'):
        _MOD.worker_init()


def _worker_run(job):
    t0 = time.time()
    try:
        r = _MOD.run_job(job)
    except BaseException as e:     # noqa: harness error inside a worker
        r = {'harness_error': '%s: %s\n%s' % (type(e).__name__, e, traceback.format_exc())}
    r.setdefault('job', job if isinstance(job, (str, int)) else repr(job)[:200])
    r['wall_s'] = time.time() - t0
    return r


def run_pool(modname, jobs, nproc=None, budget_s=None, progress=None):
    """run jobs in worker processes; returns (results, leftover_jobs)"""
    tmp = env_setup()
    nproc = nproc or min(16, os.cpu_count() or 1, max(1, len(jobs)))
    ctx = mp.get_context('spawn')
    results = []
    t0 = time.time()
    left = []
    with ctx.Pool(nproc, initializer=_worker_init, initargs=(modname, tmp)) as pool:
        it = pool.imap_unordered(_worker_run, jobs, chunksize=1)
        n = 0
        while n < len(jobs):
            try:
                if budget_s is not None:
                    rem = budget_s - (time.time() - t0)
                    if rem <= 0:
                        raise mp.TimeoutError()
                    r = it.next(timeout=rem)
                else:
                    r = it.next()
            except mp.TimeoutError:
                left = ['budget exhausted with %d of %d jobs unfinished' % (len(jobs) - n, len(jobs))]
                pool.terminate()
                break
            except StopIteration:
                break
            n += 1
            results.append(r)
            if progress:
                progress(n, len(jobs), r)
            elif os.environ.get('VERIF_PROGRESS') and (n % max(1, len(jobs) // 20) == 0):
                sys.stderr.write('[%s] %d/%d jobs, %.0fs\n' % (modname, n, len(jobs), time.time() - t0))
    return results, left


# -------------------------------------------------------------------------------------------------
# known findings
# -------------------------------------------------------------------------------------------------
def load_known():
    p = os.path.join(VERIF, 'known_findings.json')
    if not os.path.exists(p):
        return Known()
    with open(p) as f:
        d = json.load(f)
    out = Known()
    for e in d.get('findings', []):
        if e.get('family'):
            out.families.append((e['property'], e['key']))     # key is a glob over finding keys: one defect site, many inputs
        else:
            out[(e['property'], e['key'])] = e
    return out


class Known(dict):
    """known findings: exact (property, key) entries plus a few family entries whose key is a glob (one call site of the code
    that fails for a whole class of inputs, e.g. every mnemonic with a 16-bit addressing form)"""
    def __init__(self):
        dict.__init__(self)
        self.families = []

    def __contains__(self, pk):
        if dict.__contains__(self, pk):
            return True
        import fnmatch
        return any(p == pk[0] and fnmatch.fnmatchcase(pk[1], g) for p, g in self.families)


# -------------------------------------------------------------------------------------------------
# replay on the uninstrumented code
# -------------------------------------------------------------------------------------------------
def write_replay(prop, key, script_text):
    os.makedirs(os.path.join(VERIF, 'replays'), exist_ok=True)
    h = hashlib.sha1(key.encode()).hexdigest()[:10]
    path = os.path.join(VERIF, 'replays', '%s_%s.py' % (prop, h))
    with open(path, 'w') as f:
        f.write(script_text)
    return path


def run_replay(path, timeout=120):
    """exit status 1 = the violation reproduces on the real code; 0 = it does not; other = error"""
    env = dict(os.environ)
    env['PYTHONPATH'] = REPO + os.pathsep + VERIF
    env['PYTHONDONTWRITEBYTECODE'] = '1'
    env['PYTHONHASHSEED'] = '0'
    env.pop('MIASMX_VERIF', None)
    try:
        p = subprocess.run([REAL_PY, path], env=env, capture_output=True, text=True, timeout=timeout)
        return p.returncode, (p.stdout + p.stderr)[-2000:]
    except subprocess.TimeoutExpired:
        return 124, 'timeout'


# -------------------------------------------------------------------------------------------------
# the common tail of every check: triage candidates, print lines, write evidence, exit code
# -------------------------------------------------------------------------------------------------
def finish(prop, tier, seed, level, t0, coverage, assumptions, candidates, harness_errors,
           inconclusive, make_replay, extra=None):
    """candidates: list of dict(key=, desc=, data=) solver-found violation candidates.
    make_replay(candidate) -> python source of a script that exits 1 iff the violation reproduces."""
    known = load_known()
    confirmed, known_hit, not_repro = [], [], []
    seen = set()
    validated = 0
    todo = []
    for cnd in candidates:
        k = cnd['key']
        if k in seen:
            continue
        seen.add(k)
        src = make_replay(cnd)
        todo.append((cnd, write_replay(prop, k, src)))
    # every candidate (known or not) is replayed on the uninstrumented code; the replays are independent processes
    from concurrent.futures import ThreadPoolExecutor
    with ThreadPoolExecutor(max_workers=min(16, os.cpu_count() or 1)) as ex:
        outcomes = list(ex.map(lambda t: run_replay(t[1]), todo))
    for (cnd, path), (rc, out) in zip(todo, outcomes):
        k = cnd['key']
        validated += 1
        cnd['replay'] = path
        if rc == 1:
            if (prop, k) in known:
                known_hit.append(cnd)
            else:
                confirmed.append(cnd)
        elif rc == 0 and cnd.get('soft'):
            inconclusive.append('candidate %s did not reproduce concretely (time-based, soft)' % k)
        elif rc == 0:
            not_repro.append(cnd)
            harness_errors.append('candidate %s did not reproduce on the real code (%s)' % (k, path))
        else:
            harness_errors.append('replay %s failed to run: rc=%s %s' % (path, rc, out[-400:]))
    for cnd in known_hit:
        print('KNOWN-FINDING: property=%s %s %s' % (prop, cnd['key'], cnd.get('desc', '')))
    for cnd in confirmed:
        print('VIOLATION property=%s replay=%s' % (prop, cnd['replay']))
        print('  key=%s %s' % (cnd['key'], cnd.get('desc', '')))
    for h in harness_errors:
        print('HARNESS-ERROR: %s' % h)
    coverage = dict(coverage)
    coverage['repo_path'] = REPO
    coverage['traces_validated_against_impl'] = coverage.get('traces_validated_against_impl', 0) + validated
    coverage['disagreements_checked'] = coverage.get('disagreements_checked', 0) + validated
    coverage['inconclusive'] = inconclusive[:50]
    coverage['inconclusive_count'] = len(inconclusive)
    coverage['known_findings_observed'] = [c['key'] for c in known_hit]
    coverage['violation_keys'] = [c['key'] for c in confirmed]
    coverage['violation_details'] = [{'key': c['key'], 'desc': c.get('desc', ''), 'replay': c['replay']} for c in confirmed]
    if extra:
        coverage.update(extra)
    ev = {
        'property_id': prop,
        'tier': tier,
        'seed': seed,
        'level': level,
        'coverage': coverage,
        'assumptions': assumptions,
        'wall_s': round(time.time() - t0, 3),
        'violations': len(confirmed),
    }
    # runs against a scratch tree (VERIF_REPO set by vf/tools/seedcheck.sh) must not overwrite the evidence of /repo
    evdir = os.path.join(VERIF, 'evidence') if REPO == '/repo' else os.path.join(VERIF, '.cache', 'scratch_evidence')
    os.makedirs(evdir, exist_ok=True)
    with open(os.path.join(evdir, '%s.json' % prop), 'w') as f:
        json.dump(ev, f, indent=1, default=str)
    print('%s %s: %s; %d known finding(s), %d violation(s), %d inconclusive, %d harness error(s); %.1fs' % (
        prop, tier, _summ(coverage), len(known_hit), len(confirmed), len(inconclusive), len(harness_errors),
        time.time() - t0))
    cleanup_tmp()
    if harness_errors:
        return EXIT_HARNESS
    if confirmed:
        return EXIT_VIOLATION
    return EXIT_OK


def _summ(cov):
    keys = ['programs', 'states', 'transitions', 'obligations', 'proved']
    return ', '.join('%s=%s' % (k, cov[k]) for k in keys if k in cov)


def tier_seed(argv=None):
    import argparse
    ap = argparse.ArgumentParser()
    ap.add_argument('--tier', default=os.environ.get('VERIF_TIER', 'quick'), choices=['quick', 'thorough'])
    ap.add_argument('--seed', type=int, default=int(os.environ.get('VERIF_SEED', '0') or 0))
    ap.add_argument('--replay', default=None)
    ap.add_argument('--only', default=None, help='substring filter on job names (debugging)')
    ap.add_argument('--nproc', type=int, default=None)
    a = ap.parse_args(argv)
    return a
