"""Shared symbolic exploration of the real x86 decoder (used by C01, C10, C11, C17).

A job fixes the prefix bytes and the opcode bytes down to (not including) the first byte the decoder
looks up by value class (ModRM of a /digit group) - the remaining bytes are symbolic.  The opcode
trie is regenerated from the live tables of /repo on every run.
"""
import sys
import z3

from vf.symex import core, instr
from vf.symex.core import SInt, Engine, PathAbort, bvv
from vf.symex.instr import SBytes

NSYM = 11          # symbolic bytes appended after the concrete part (longest tail: modrm sib disp32 imm32 = 10)
SIB_REPS = [0x00, 0x24, 0x25, 0x05, 0x65, 0xE4, 0x5C, 0xFF]
PREFIX_SETS_QUICK = [(), (0x66,), (0x67,)]
PREFIX_SETS_ALL = [(), (0x66,), (0x67,), (0x66, 0x67), (0x2E,), (0x36,), (0x3E,), (0x26,), (0x64,), (0x65,), (0xF2,), (0xF3,), (0xF0,),
                   (0x67, 0x26), (0xF3, 0x66)]

A = None


def worker_init():
    instr.install()
    global A, R, M
    import miasmx.tools.modint as M
    import miasmx.arch.ia32_reg as R
    import miasmx.arch.ia32_arch as A


def has_modrm(m):
    return m.afs in (A.d0, A.d1, A.d2, A.d3, A.d4, A.d5, A.d6, A.d7) or (A.rmr in m.rm)


def rows():
    """[(opcode bytes tuple, set of last-byte values or None, representative mnemonic, is_digit_level)]
    from the live trie.  Consecutive values of the last opcode byte that lead to the same mnemonic
    object are one row (the byte stays symbolic inside the set)."""
    out = []

    def walk(node, pref):
        groups = {}
        order = []
        for b in range(256):
            ch = node[b]
            if ch is None:
                continue
            if isinstance(ch, A.mnemonic):
                k = id(ch)
                if k not in groups:
                    groups[k] = (ch, [])
                    order.append(k)
                groups[k][1].append(b)
            else:
                # a list: either a further opcode byte or the ModRM level of /digit rows
                kids = [x for x in ch if x is not None]
                digit = kids and all(isinstance(x, A.mnemonic) and x.afs in (A.d0, A.d1, A.d2, A.d3, A.d4, A.d5, A.d6, A.d7)
                                     and len(x.opc) == len(pref) + 2 for x in kids)
                if digit:
                    out.append((tuple(pref) + (b,), None, kids[0], True))
                else:
                    walk(ch, pref + [b])
        for k in order:
            m, bs = groups[k]
            out.append((tuple(pref), tuple(bs), m, False))
    walk(A.x86mndb.db_mnemo, [])
    return out


def signature(row):
    opc, last, m, digit = row
    if digit:
        # all mnemonics below a /digit byte
        node = A.x86mndb.db_mnemo
        for b in opc:
            node = node[b]
        kids = sorted(set((x.name, tuple(map(str, x.rm)), tuple(sorted((k, str(v)) for k, v in x.modifs.items() if v))) for x in node if x is not None))
        return ('digit', tuple(kids))
    return ('leaf', m.afs if isinstance(m.afs, str) else 'd', tuple(map(str, m.rm)), tuple(sorted((k, str(v)) for k, v in m.modifs.items() if v)),
            _name_class(m.name, bool(m.modifs.get('breakflow'))))


_SPECIAL = None


def _name_class(name, flow):
    """the decoder branches on mnemonic names: by '#..#' tags of the MMX/SSE naming scheme and on a list of
    literal names; rows are grouped by that, not by their full name"""
    global _SPECIAL
    import re
    if _SPECIAL is None:
        src = open(A.__file__).read()
        _SPECIAL = set(re.findall(r"'([A-Za-z#0-9_]+)'", src[src.index('def _dis('):src.index('def parse_mnemo(')]))
    if name in _SPECIAL or flow:
        return name
    tags = tuple(re.findall(r'#[A-Za-z0-9]*', name))
    if tags:
        return tags + (('S',) if '#S#' in name else ())
    for stem in ('lods', 'stos', 'movs', 'cmps', 'scas', 'set', 'cmov', 'j'):
        if name.startswith(stem):
            return stem
    return ''


def make_jobs(tier, seed, prefix_sets=None, sib='reps', per_signature=True):
    """job = (prefixes, opcode bytes, last-byte set, sibmode, row name)"""
    import random
    rnd = random.Random(seed)
    rs = rows()
    if per_signature:
        by = {}
        for r in rs:
            by.setdefault(signature(r), []).append(r)
        rs = []
        for sig in sorted(by, key=repr):
            cands = by[sig]
            rs.append(cands[rnd.randrange(len(cands))])
    psets = prefix_sets if prefix_sets is not None else (PREFIX_SETS_QUICK if tier == 'quick' else PREFIX_SETS_ALL)
    jobs = []
    for r in rs:
        opc, last, m, digit = r
        for ps in psets:
            jobs.append((tuple(ps), opc, last, sib, m.name))
    return jobs


class Desc(object):
    """what the decoder reported on one path"""
    __slots__ = ('kind', 'instr', 'l', 'name', 'prefix', 'args', 'opmode', 'admode', 'maxread', 'exc', 'data', 'nconc', 'offset_after')


def explore(job, on_path, tier='quick', max_paths=40000, max_seconds=900, offset=None, length=None):
    """run the real decoder on prefixes || opcode || symbolic bytes; on_path(eng, desc) -> result"""
    prefixes, opc, last, sibmode, rowname = job
    eng = Engine(width=72, timeout_ms=20000, max_paths=max_paths, max_seconds=max_seconds)

    def fn(eng):
        reset_tables()
        items = list(prefixes) + list(opc)
        if last is not None:
            lb = SInt.var('opb', 0, 255)
            eng.assume(instr._in_set(lb.t, list(last)))
            items.append(lb)
        nconc = len(items)
        sym = [SInt.var('b%d' % i, 0, 255) for i in range(NSYM)]
        items += sym
        node_m = None
        if sibmode == 'reps' and (0x67 not in prefixes or _row_is_mmx(opc, last)):
            # restrict the SIB byte to representatives (only where the row has a ModRM byte)
            if _row_has_modrm(opc, last):
                modrm, sibb = sym[0].t, sym[1].t
                is_sib = z3.And(z3.Extract(2, 0, modrm) == 4, z3.Extract(7, 6, modrm) != 3)
                eng.assume(z3.Implies(is_sib, instr._in_set(sibb, SIB_REPS)))
        if sibmode == 'one' and _row_has_modrm(opc, last):
            # the thinnest slice: one register form and two memory forms per reg value (for clauses about the mnemonic, not the addressing form)
            modrm = sym[0].t
            mod, rm = z3.Extract(7, 6, modrm), z3.Extract(2, 0, modrm)
            eng.assume(z3.Or(z3.And(mod == 3, rm == 1), z3.And(mod == 0, rm == 0), z3.And(mod == 1, rm == 3)))
        if sibmode == 'min' and _row_has_modrm(opc, last):
            # a thin slice of the ModRM space (every reg value; few rm / SIB forms): for clauses that cannot
            # depend on the addressing form
            modrm, sibb = sym[0].t, sym[1].t
            mod, rm = z3.Extract(7, 6, modrm), z3.Extract(2, 0, modrm)
            eng.assume(z3.Or(z3.And(mod == 3, z3.Or(rm == 0, rm == 5)), z3.And(mod == 0, z3.Or(rm == 0, rm == 4, rm == 5)),
                             z3.And(mod == 1, z3.Or(rm == 4, rm == 5)), z3.And(mod == 2, rm == 0)))
            if 0x67 not in prefixes or _row_is_mmx(opc, last):
                eng.assume(z3.Implies(z3.And(rm == 4, mod != 3), z3.Or(sibb == 0x24, sibb == 0x25)))
        data = SBytes(items)
        d = Desc()
        d.data = data
        d.nconc = nconc
        d.exc = None
        try:
            i = A.x86mnemo.dis(data)
        except PathAbort:
            raise
        except Exception as ex:
            d.kind = 'exc'
            d.exc = ex
            d.instr = None
            d.maxread = data.maxread
            return on_path(eng, d)
        d.maxread = data.maxread
        if i is None:
            d.kind = 'none'
            d.instr = None
            return on_path(eng, d)
        d.kind = 'ok'
        d.instr = i
        d.l = i.l
        d.name = i.m.name
        d.prefix = list(i.prefix)
        d.args = i.arg
        d.opmode = i.opmode
        d.admode = i.admode
        return on_path(eng, d)
    rs = eng.explore(fn)
    return eng, rs


_ROWMODRM = {}


def _row_has_modrm(opc, last):
    k = (opc, last)
    if k not in _ROWMODRM:
        node = A.x86mndb.db_mnemo
        for b in opc:
            node = node[b]
        if last is None:
            _ROWMODRM[k] = True        # digit level
        else:
            _ROWMODRM[k] = has_modrm(node[last[0]])
    return _ROWMODRM[k]


def _row_is_mmx(opc, last):
    node = A.x86mndb.db_mnemo
    for b in opc:
        node = node[b]
    if last is None:
        kids = [x for x in node if x is not None]
        return any(x.modifs.get('mmx') for x in kids)
    return bool(node[last[0]].modifs.get('mmx'))


_SNAP = [None]


def reset_tables():
    """the decoder hands out dictionaries from shared tables through dict() copies; nothing to reset, but
    the module-level operand dictionaries r_cl / r_dx are shared objects appended to argument lists"""
    pass


def witness_bytes(eng, d, model=None):
    """concrete bytes of the whole input under a model of the path"""
    m = model or eng.witness()
    out = []
    for x in d.data.items:
        if isinstance(x, SInt):
            out.append(m.eval(x.t, model_completion=True).as_long() & 0xFF)
        else:
            out.append(x)
    return out


def extreme_witnesses(eng, d):
    """up to three witnesses: the model's, one with every free byte as small as possible, one as large as possible
    (byte by byte, left to right) - deterministic given the path"""
    outs = [witness_bytes(eng, d)]
    for want_max in (False, True):
        eng.s.push()
        try:
            vals = []
            okv = True
            fill = 0xFF if want_max else 0x00
            for x in d.data.items:
                if not isinstance(x, SInt):
                    vals.append(x)
                    continue
                # most bytes are unconstrained by the path: try the extreme value in one query
                r = eng._check(x.t == bvv(fill))
                if r == 'sat':
                    eng.s.add(x.t == bvv(fill))
                    vals.append(fill)
                    continue
                v = 0
                for b in range(7, -1, -1):
                    bit = z3.Extract(b, b, x.t)
                    want = 1 if want_max else 0
                    r = eng._check(bit == want)
                    if r == 'sat':
                        eng.s.add(bit == want)
                        v |= want << b
                    elif r == 'unsat':
                        eng.s.add(bit == 1 - want)
                        v |= (1 - want) << b
                    else:
                        okv = False
                        break
                if not okv:
                    break
                vals.append(v)
            if okv:
                outs.append(vals)
        finally:
            eng.s.pop()
    return outs
