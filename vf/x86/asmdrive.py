"""Driving the real x86 assembler (public API x86mnemo.asm / asm_att) with SYMBOLIC numbers.

The line is real text, lexed by the real PLY lexers and split by the real shlex-based front end; the only
substitution is made right after lexing: a NUMBER token whose concrete value is one of the placeholders gets
the symbolic integer instead (so digit-string -> int conversion is the one step not covered).
"""
import sys

from vf.symex import core, instr
from vf.symex.core import SInt, PathAbort
from vf.symex.instr import SBytes
from vf.x86 import explore as E

PLACEHOLDERS = [1000001 + 7 * i for i in range(8)]     # values no template uses literally


class SymLexer(object):
    def __init__(self, real):
        self.real = real
        self.map = {}

    def input(self, s):
        self.real.input(s)

    def token(self):
        t = self.real.token()
        if t is not None and t.type == 'NUMBER' and t.value in self.map:
            t.value = self.map[t.value]
        return t

    def __getattr__(self, k):
        return getattr(self.real, k)


PAD = ATT = None
LEX_I = LEX_A = None


def worker_init():
    E.worker_init()
    global PAD, ATT, LEX_I, LEX_A
    import miasmx.core.parse_ad as PAD
    import miasmx.arch.ia32_att as ATT
    if not isinstance(PAD.lexer_intel, SymLexer):
        PAD.lexer_intel = SymLexer(PAD.lexer_intel)
        ATT.lexer_att = SymLexer(ATT.lexer_att)
    LEX_I, LEX_A = PAD.lexer_intel, ATT.lexer_att


def render(template, values):
    """template with {0} {1} .. -> text using the given concrete values"""
    return template.format(*values)


_FRESH = [0]


def fresh_placeholders(k):
    """k numerals never used before in this process: the operand text they appear in is new to every cache keyed by text"""
    out = [2000003 + 7 * (_FRESH[0] + i) for i in range(k)]
    _FRESH[0] += k
    return out


def asm(template, syms, att=False, ph=None):
    """template: line with {k} placeholders; syms: list of SInt/int for them -> list of candidates (bytes / SBytes)
    ph: the numerals to print for the numbers (default: the fixed PLACEHOLDERS)"""
    ph = PLACEHOLDERS[:len(syms)] if ph is None else ph
    m = {}
    for k, v in enumerate(syms):
        m[ph[k]] = v
    LEX_I.map = m
    LEX_A.map = m
    try:
        line = template.format(*ph[:len(syms)])
        if att:
            return E.A.x86mnemo.asm_att(line)
        return E.A.x86mnemo.asm(line)
    finally:
        LEX_I.map = {}
        LEX_A.map = {}


def as_sbytes(c):
    if isinstance(c, SBytes):
        return c
    return SBytes(list(c))


# -------------------------------------------------------------------------------------------------
# line generator
# -------------------------------------------------------------------------------------------------
R32 = ['eax', 'ecx', 'ebx', 'esp', 'ebp', 'edi']
R16 = ['ax', 'bx', 'si']
R8 = ['al', 'cl', 'ah', 'bh']
MEMS = ['[ebx]', '[ebp]', '[esp]', '[ebx+{N}]', '[ebp+{N}]', '[ebx+esi*4+{N}]', '[esi*2+{N}]', '[esi*4+{N}]', '[{N}]', '[eax+ecx]', '[esp+{N}]', 'es:[edi+{N}]',
        '[ebx-{N}]', '[ebx+ebx*2+{N}]', '[ebp+esi*8]']
SEGMEMS = ['ss:[eax+ebp*2+{N}]', 'fs:[ebx+{N}]', 'es:[edi+{N}]', 'gs:[{N}]', 'cs:[esi*4+{N}]', 'ss:[ebx]', 'ds:[ebp+{N}]']
SIZES = ['BYTE PTR', 'WORD PTR', 'DWORD PTR', 'QWORD PTR', 'XMMWORD PTR', 'TBYTE PTR']


def operand_shapes(tier):
    """[(tag, text)] with {N} for a number"""
    out = [('r32', 'eax'), ('r32b', 'ebx'), ('r32c', 'ecx'), ('r16', 'bx'), ('r8', 'cl'), ('r8h', 'ah'), ('imm', '{N}'), ('sreg', 'es'), ('sreg2', 'fs'),
           ('mm', 'mm1'), ('xmm', 'xmm2'), ('st', 'st(1)'), ('st0', 'st'), ('cr', 'cr0'), ('dr', 'dr1')]
    mems = MEMS if tier == 'thorough' else ['[ebx]', '[ebp+{N}]', '[ebx+esi*4+{N}]', '[{N}]', '[esp+{N}]', '[esi*4+{N}]', '[ebx-{N}]', '[ebx+ebx*2+{N}]']
    for sz in (SIZES if tier == 'thorough' else ['BYTE PTR', 'WORD PTR', 'DWORD PTR', 'QWORD PTR']):
        for m in mems:
            out.append(('m%s:%s' % (sz.split()[0].lower(), m.replace('{N}', 'N')), '%s %s' % (sz, m)))
    for m in mems:
        out.append(('mnosize:%s' % m.replace('{N}', 'N'), m))
    # explicit segment overrides that are not the default segment of the address (ebp as index, no base: the default is ds)
    for m in SEGMEMS:
        out.append(('mdword:%s' % m.replace('{N}', 'N'), 'DWORD PTR %s' % m))
        if tier == 'thorough':
            out.append(('mbyte:%s' % m.replace('{N}', 'N'), 'BYTE PTR %s' % m))
            out.append(('mnosize:%s' % m.replace('{N}', 'N'), m))
    return out


def fill(template):
    """number the {N} slots -> (template with {0}..{k-1}, k)"""
    k = 0
    out = ''
    i = 0
    while i < len(template):
        if template.startswith('{N}', i):
            out += '{%d}' % k
            k += 1
            i += 3
        else:
            out += template[i]
            i += 1
    return out, k


def mnemonics():
    names = set(E.A.x86mndb.mnemo_lookup.keys()) | set(E.A.mnemo_mmx_hash.keys())
    names = [n for n in names if '#' not in n]
    return sorted(names)


def accepted_lines(names, shapes, probe_values=(5, 0x1234)):
    """concrete pre-pass: (mnemonic, operand texts) combinations for which the assembler returns >= 1 candidate"""
    import itertools
    out = []
    nonmem = [s for s in shapes if not s[0].startswith('m') or s[0] == 'mm']
    mem = [s for s in shapes if s[0].startswith('m') and s[0] != 'mm']
    partner = [s for s in nonmem if s[0] in ('r32', 'r16', 'r8', 'imm', 'xmm', 'mm', 'st', 'sreg', 'r32c')]
    for n in names:
        combos = [()] + [(s,) for s in shapes] + list(itertools.product(nonmem, repeat=2)) + \
            list(itertools.product(mem, partner)) + list(itertools.product(partner, mem))
        for cmb in combos:
            tmpl, k = fill(n + ' ' + ', '.join(t for _, t in cmb))
            try:
                r = E.A.x86mnemo.asm(tmpl.format(*[probe_values[i % 2] for i in range(k)]))
            except Exception:
                continue
            if r:
                out.append((n, tuple(tag for tag, _ in cmb), tmpl, k))
        # three-operand forms
        for cmb in (('r32', 'eax'), ('r32b', 'ebx'), ('imm', '{N}')), (('r32', 'eax'), ('mdword', 'DWORD PTR [ebx+{N}]'), ('imm', '{N}')), \
                (('xmm', 'xmm2'), ('xmm', 'xmm1'), ('imm', '{N}')), (('r32', 'eax'), ('r32b', 'ebx'), ('r8', 'cl')):
            tmpl, k = fill(n + ' ' + ', '.join(t for _, t in cmb))
            try:
                r = E.A.x86mnemo.asm(tmpl.format(*[probe_values[i % 2] for i in range(k)]))
            except Exception:
                continue
            if r:
                out.append((n, tuple(tag for tag, _ in cmb), tmpl, k))
    # keep only the lines that are valid instructions for GNU as (validity predicate of the property's quantifier)
    from vf.oracles import gas
    texts = [tmpl.format(*[probe_values[i % 2] for i in range(k)]) for (_, _, tmpl, k) in out]
    okidx = gas.valid_lines(texts)
    return [e for i, e in enumerate(out) if i in okidx]
