"""Decode -> render -> re-assemble with SYMBOLIC numbers (used by C03's converse direction and C09).

The decoded instruction keeps its immediates / displacements symbolic (terms over the input bytes).  The real
renderer runs in the engine's render mode: every symbolic number is printed as a reserved placeholder numeral (sign
decided by a fork, see core.render_number); the text goes through the real parser, whose lexer maps the placeholder
NUMBER tokens back to the symbolic values (vf/x86/asmdrive.SymLexer); the candidates are byte strings over the same
symbols and "the original bytes are among the candidates" is an SMT validity query under the path condition.
Not modelled: digit-string <-> integer conversion (assumed inverse of each other)."""
import z3

from vf.symex import core
from vf.symex.core import PathAbort
from vf.x86 import explore as E
from vf.x86 import asmdrive as AD

ATT_FMT = 'att_syntax binutils'


def render(eng, i, att=False):
    """(text, placeholder map) of the real rendering of i in render mode"""
    eng.render_map = {}
    try:
        txt = i.__str__(ATT_FMT) if att else str(i)
    finally:
        rm = eng.render_map
        eng.render_map = None
    return txt, rm


def asm_text(txt, rm, att=False):
    AD.LEX_I.map = rm
    AD.LEX_A.map = rm
    try:
        return E.A.x86mnemo.asm_att(txt) if att else E.A.x86mnemo.asm(txt)
    finally:
        AD.LEX_I.map = {}
        AD.LEX_A.map = {}


def contains(eng, cands, orig):
    """True if some candidate equals orig for ALL values of the path; else a model (or None when unknown)"""
    alts = []
    for c in cands:
        sb = AD.as_sbytes(c)
        if len(sb.items) != len(orig):
            continue
        conds = []
        differ = False
        for x, y in zip(sb.items, orig):
            if isinstance(x, int) and isinstance(y, int):
                if x != y:
                    differ = True
                    break
            else:
                conds.append(z3.Extract(7, 0, core.term_of(x)) == z3.Extract(7, 0, core.term_of(y)))
        if differ:
            continue
        if not conds:
            return True
        alts.append(z3.And(*conds))
    if not alts:
        return eng.witness()
    for a in alts:
        if eng.prove(a):
            return True
    st, m = eng.find(z3.Not(z3.Or(*alts)))
    if st == 'sat':
        return m
    if st == 'unsat':
        return True         # covered by a disjunction of candidates
    return None


def concrete_text(txt, rm, model):
    """the rendering with the placeholders replaced by their values under a model"""
    import re
    vals = {}
    for p, s in rm.items():
        vals[p] = model.eval(s.t, model_completion=True).as_long()

    def sub(m_):
        t = m_.group(0)
        v = int(t, 16) if t.lower().startswith('0x') else int(t)
        if v in vals:
            return ('0x%x' % vals[v]) if t.lower().startswith('0x') else str(vals[v])
        return t
    return re.sub(r'0[xX][0-9a-fA-F]+|\d+', sub, txt)
