"""GNU as (--32, Intel syntax).  Used (a) as VALIDITY FILTER for generated lines and (b) to say which
instruction a line denotes: the line is assembled by GNU as and read back by objdump, so both sides of the
comparison in C02 go through the same disassembler.  Never the deciding step of a solver obligation."""
import os
import re
import subprocess
import tempfile

SLOT = 32


def reference(lines, att=False, want_bytes=False):
    """-> list of (length, objdump text[, bytes]) or None (GNU as rejects the line or warns about it)"""
    if not lines:
        return []
    with tempfile.TemporaryDirectory() as d:
        src = os.path.join(d, 'x.s')
        obj = os.path.join(d, 'x.o')
        bad = set()
        todo = list(range(len(lines)))
        for attempt in range(3):
            with open(src, 'w') as f:
                f.write('.text\n' + ('' if att else '.intel_syntax noprefix\n'))
                for k, l in enumerate(lines):
                    f.write('.org %d, 0x90\n' % (k * SLOT))
                    f.write((l if k not in bad else 'nop') + '\n')
                f.write('.org %d, 0x90\nnop\n' % (len(lines) * SLOT))
            p = subprocess.run(['as', '--32', '-o', obj, src], capture_output=True, text=True)
            newbad = set()
            for m in re.finditer(r'x\.s:(\d+): (Error|Fatal|Warning)', p.stderr):
                ln = int(m.group(1))
                k = (ln - (2 if att else 3)) // 2
                if 0 <= k < len(lines):
                    newbad.add(k)
            if p.returncode == 0 and not (newbad - bad):
                bad |= newbad
                break
            bad |= newbad
        if not os.path.exists(obj):
            return [None] * len(lines)
        out = subprocess.run(['objdump', '-d', '-z', '-M', 'intel', '--no-show-raw-insn', obj], capture_output=True, text=True).stdout
        raw = b''
        if want_bytes:
            binf = os.path.join(d, 'x.bin')
            subprocess.run(['objcopy', '-O', 'binary', '-j', '.text', obj, binf], capture_output=True)
            if os.path.exists(binf):
                with open(binf, 'rb') as f:
                    raw = f.read()
    starts, addrs = {}, []
    for line in out.splitlines():
        m = re.match(r'^\s*([0-9a-f]+):\t(.*)$', line)
        if m:
            a = int(m.group(1), 16)
            starts[a] = m.group(2).strip()
            addrs.append(a)
    addrs.sort()
    nxt = {a: (addrs[i + 1] if i + 1 < len(addrs) else a + 1) for i, a in enumerate(addrs)}
    res = []
    for k in range(len(lines)):
        a = k * SLOT
        if k in bad or a not in starts:
            res.append(None)
        else:
            res.append((nxt[a] - a, starts[a], raw[a:nxt[a]]) if want_bytes else (nxt[a] - a, starts[a]))
    return res


def valid_lines(lines, att=False):
    r = reference(lines, att)
    return set(i for i, x in enumerate(r) if x is not None)
