"""GNU as (--32, Intel syntax) used only as a VALIDITY FILTER for generated lines (never as the deciding step)."""
import os
import re
import subprocess
import tempfile


def valid_lines(lines, att=False):
    """-> set of indices of the lines GNU as accepts"""
    if not lines:
        return set()
    with tempfile.TemporaryDirectory() as d:
        src = os.path.join(d, 'x.s')
        with open(src, 'w') as f:
            f.write('.text\n' + ('' if att else '.intel_syntax noprefix\n'))
            for l in lines:
                f.write(l + '\n')
        p = subprocess.run(['as', '--32', '-o', os.path.join(d, 'x.o'), src], capture_output=True, text=True)
        bad = set()
        for m in re.finditer(r'x\.s:(\d+): (Error|Fatal)', p.stderr):
            bad.add(int(m.group(1)) - (2 if att else 3))
        return set(range(len(lines))) - bad
