"""The host CPU in 32-bit mode as arbiter: executes one instruction from a given architectural state.

A tiny static 32-bit ELF (gcc -m32 -nostdlib -static) maps a scratch window at a fixed address, loads
registers / EFLAGS / window contents from an input blob on stdin, executes the instruction bytes, and
writes registers / EFLAGS / window back to stdout.  Built once per process tree into a private directory.
"""
import os
import struct
import subprocess
import tempfile

WIN_BASE = 0x20000000
WIN_SIZE = 0x2000
STACK_TOP = WIN_BASE + WIN_SIZE - 0x100      # esp for tests that do not set it: inside the window
REGS = ['eax', 'ecx', 'edx', 'ebx', 'esp', 'ebp', 'esi', 'edi']
FLAG_BITS = {'cf': 0, 'pf': 2, 'af': 4, 'zf': 6, 'nf': 7, 'df': 10, 'of': 11}
FLAG_MASK = sum(1 << b for b in FLAG_BITS.values())

SRC = r'''
    .intel_syntax noprefix
    .text
    .globl _start
_start:
    /* mmap2(WIN_BASE, WIN_SIZE, RWX, MAP_PRIVATE|MAP_ANONYMOUS|MAP_FIXED, -1, 0) */
    mov eax, 192
    mov ebx, %(base)d
    mov ecx, %(size)d
    mov edx, 7
    mov esi, 0x32
    mov edi, -1
    xor ebp, ebp
    int 0x80
    cmp eax, %(base)d
    jne fail
    /* read(0, inblob, sizeof) - a pipe may deliver the blob in pieces */
    xor edi, edi
rdloop:
    mov eax, 3
    xor ebx, ebx
    lea ecx, inblob
    add ecx, edi
    mov edx, %(insize)d
    sub edx, edi
    int 0x80
    cmp eax, 0
    jle fail
    add edi, eax
    cmp edi, %(insize)d
    jb rdloop
    /* copy window contents */
    lea esi, inblob+64
    mov edi, %(base)d
    mov ecx, %(size)d
    cld
    rep movsb
    /* copy the code: 16 instruction bytes + jmp back */
    lea esi, inblob+40
    lea edi, codebuf
    mov ecx, 16
    rep movsb
    mov [saved_esp], esp
    mov dword ptr [outblob+36], 0
    /* flags */
    push dword ptr [inblob+32]
    popfd
    mov eax, [inblob+0]
    mov ecx, [inblob+4]
    mov edx, [inblob+8]
    mov ebx, [inblob+12]
    mov ebp, [inblob+20]
    mov esi, [inblob+24]
    mov edi, [inblob+28]
    mov esp, [inblob+16]
    jmp codebuf
back:
    mov [outblob+16], esp
    mov esp, [saved_esp]
    pushfd
    pop dword ptr [outblob+32]
    mov [outblob+0], eax
    mov [outblob+4], ecx
    mov [outblob+8], edx
    mov [outblob+12], ebx
    mov [outblob+20], ebp
    mov [outblob+24], esi
    mov [outblob+28], edi
    cld
finish:
    mov esi, %(base)d
    lea edi, outblob+64
    mov ecx, %(size)d
    rep movsb
    mov eax, 4
    mov ebx, 1
    lea ecx, outblob
    mov edx, %(outsize)d
    int 0x80
    mov eax, 1
    xor ebx, ebx
    int 0x80
fail:
    mov eax, 1
    mov ebx, 99
    int 0x80
    /* landing pad for taken branches: the test places 'jmp taken' targets here via relative displacement 0x40 */
    .section .wx, "awx"
    .balign 64
codebuf:
    .fill 16, 1, 0x90
    jmp back_not_taken
    /* a short forward branch with displacement 0x40 lands in this sled */
    .fill 235, 1, 0x90
taken_pad:
    mov dword ptr [outblob+36], 1
    jmp back
back_not_taken:
    jmp back
    .data
saved_esp: .long 0
inblob: .fill %(insize)d, 1, 0
outblob: .fill %(outsize)d, 1, 0
'''

_BIN = [None]
INSIZE = 64 + WIN_SIZE
OUTSIZE = 64 + WIN_SIZE


def build():
    if _BIN[0] and os.path.exists(_BIN[0]):
        return _BIN[0]
    d = os.path.join(os.environ.get('TMPDIR') or tempfile.gettempdir(), 'cpu32_%d' % os.getpid())
    os.makedirs(d, exist_ok=True)
    src = os.path.join(d, 'run.S')
    exe = os.path.join(d, 'run')
    with open(src, 'w') as f:
        f.write(SRC % {'base': WIN_BASE, 'size': WIN_SIZE, 'insize': INSIZE, 'outsize': OUTSIZE})
    p = subprocess.run(['gcc', '-m32', '-nostdlib', '-static', '-Wl,-z,noexecstack', '-Wl,--no-warn-rwx-segments', '-o', exe, src],
                       capture_output=True, text=True)
    if p.returncode != 0:
        p = subprocess.run(['gcc', '-m32', '-nostdlib', '-static', '-o', exe, src], capture_output=True, text=True)
    if p.returncode != 0:
        raise RuntimeError('cannot build the 32-bit CPU harness: ' + p.stderr[-400:])
    _BIN[0] = exe
    return exe


def run(code, regs, flags, window=None):
    """code: instruction bytes (<= 15); regs: dict name->u32 (missing: 0; esp default inside the window);
    flags: dict cf/pf/af/zf/nf/df/of -> 0/1; window: dict offset->byte of the scratch window.
    -> dict(regs=..., flags=..., window=bytes, fault=None|'SIGSEGV'...)"""
    exe = build()
    code = bytes(code)
    assert len(code) <= 15
    r = dict((k, 0) for k in REGS)
    r['esp'] = STACK_TOP
    r.update(regs)
    ef = 0x202
    for k, b in FLAG_BITS.items():
        if flags.get(k):
            ef |= 1 << b
    blob = bytearray(INSIZE)
    struct.pack_into('<8I', blob, 0, *[r[k] & 0xFFFFFFFF for k in REGS])
    struct.pack_into('<I', blob, 32, ef)
    # the instruction, then a jump back (E9 rel32 is placed by the harness right after the 16-byte code slot)
    blob[40:40 + 16] = code + b'\x90' * (16 - len(code))
    win = bytearray(WIN_SIZE)
    if window:
        for off, v in window.items():
            win[off] = v & 0xFF
    blob[64:64 + WIN_SIZE] = win
    try:
        p = subprocess.run([exe], input=bytes(blob), capture_output=True, timeout=120)
    except subprocess.TimeoutExpired:
        return {'fault': 'timeout'}
    if p.returncode < 0:
        import signal
        return {'fault': signal.Signals(-p.returncode).name}
    if p.returncode != 0 or len(p.stdout) != OUTSIZE:
        return {'fault': 'exit %d' % p.returncode}
    out = p.stdout
    rv = struct.unpack_from('<8I', out, 0)
    ef2 = struct.unpack_from('<I', out, 32)[0]
    taken = struct.unpack_from('<I', out, 36)[0]
    return {'fault': None, 'regs': dict(zip(REGS, rv)), 'flags': dict((k, (ef2 >> b) & 1) for k, b in FLAG_BITS.items()),
            'window': out[64:64 + WIN_SIZE], 'taken': taken}


if __name__ == '__main__':
    # self-test: add eax, ebx ; shl eax, cl
    r = run(bytes.fromhex('01d8'), {'eax': 0x7fffffff, 'ebx': 1}, {})
    print(r['fault'], hex(r['regs']['eax']), r['flags'])
    r = run(bytes.fromhex('8903'), {'eax': 0x11223344, 'ebx': WIN_BASE + 0x100}, {})
    print(r['fault'], r['window'][0x100:0x104].hex())
    r = run(bytes.fromhex('7440'), {}, {'zf': 1})
    print('je taken:', r.get('taken'), r['fault'])
    r = run(bytes.fromhex('7440'), {}, {'zf': 0})
    print('je not taken:', r.get('taken'), r['fault'])
    r = run(bytes.fromhex('f7f3'), {'eax': 1, 'edx': 0, 'ebx': 0}, {})
    print('div by zero:', r['fault'])
