"""GNU objdump (i386, Intel syntax) as external arbiter at concrete witnesses + a normaliser that parses
both objdump's and miasmX's Intel renderings into one canonical operand structure."""
import os
import re
import subprocess
import tempfile

SLOT = 32


def disassemble(blobs):
    """blobs: list of byte strings (<= 15 bytes each) -> list of (nbytes, text) or None per blob.
    Each blob sits in its own 32-byte slot padded with NOPs, so a mis-sized decode cannot desynchronise the next one."""
    if not blobs:
        return []
    buf = b''.join(bytes(b) + b'\x90' * (SLOT - len(b)) for b in blobs)
    with tempfile.NamedTemporaryFile(suffix='.bin', delete=False) as f:
        f.write(buf)
        path = f.name
    try:
        out = subprocess.run(['objdump', '-D', '-z', '-b', 'binary', '-m', 'i386', '-M', 'intel', '--no-show-raw-insn', path],
                             capture_output=True, text=True).stdout
    finally:
        os.unlink(path)
    starts = {}
    addrs = []
    for line in out.splitlines():
        m = re.match(r'^\s*([0-9a-f]+):\t(.*)$', line)
        if m:
            a = int(m.group(1), 16)
            starts[a] = m.group(2).strip()
            addrs.append(a)
    addrs.sort()
    nxt = {}
    for i, a in enumerate(addrs):
        nxt[a] = addrs[i + 1] if i + 1 < len(addrs) else len(buf)
    res = []
    for k in range(len(blobs)):
        a = k * SLOT
        if a not in starts:
            res.append(None)
            continue
        res.append((nxt[a] - a, starts[a]))
    return res


# -------------------------------------------------------------------------------------------------
# normaliser
# -------------------------------------------------------------------------------------------------
REG32 = ['eax', 'ecx', 'edx', 'ebx', 'esp', 'ebp', 'esi', 'edi']
REG16 = ['ax', 'cx', 'dx', 'bx', 'sp', 'bp', 'si', 'di']
REG8 = ['al', 'cl', 'dl', 'bl', 'ah', 'ch', 'dh', 'bh']
SEGS = ['es', 'cs', 'ss', 'ds', 'fs', 'gs']
SIZES = {'BYTE': 8, 'WORD': 16, 'DWORD': 32, 'QWORD': 64, 'XMMWORD': 128, 'TBYTE': 80, 'FWORD': 48, 'OWORD': 128, 'YMMWORD': 256}
PREFIX_WORDS = {'rep', 'repz', 'repnz', 'repe', 'repne', 'lock', 'notrack', 'bnd'}
SUPERFLUOUS = {'addr16', 'data16', 'addr32', 'data32', 'cs', 'ds', 'es', 'ss', 'fs', 'gs'}
MN_ALIAS = {
    'sal': 'shl', 'jz': 'je', 'jnz': 'jne', 'jc': 'jb', 'jnae': 'jb', 'jnc': 'jae', 'jnb': 'jae', 'jna': 'jbe', 'jnbe': 'ja', 'jpe': 'jp', 'jpo': 'jnp',
    'jnge': 'jl', 'jnl': 'jge', 'jng': 'jle', 'jnle': 'jg', 'setz': 'sete', 'setnz': 'setne', 'setc': 'setb', 'setnae': 'setb', 'setnc': 'setae',
    'setnb': 'setae', 'setna': 'setbe', 'setnbe': 'seta', 'setpe': 'setp', 'setpo': 'setnp', 'setnge': 'setl', 'setnl': 'setge', 'setng': 'setle',
    'setnle': 'setg', 'cmovz': 'cmove', 'cmovnz': 'cmovne', 'cmovc': 'cmovb', 'cmovnae': 'cmovb', 'cmovnc': 'cmovae', 'cmovnb': 'cmovae',
    'cmovna': 'cmovbe', 'cmovnbe': 'cmova', 'cmovpe': 'cmovp', 'cmovpo': 'cmovnp', 'cmovnge': 'cmovl', 'cmovnl': 'cmovge', 'cmovng': 'cmovle',
    'cmovnle': 'cmovg', 'loopz': 'loope', 'loopnz': 'loopne', 'repe': 'repz', 'repne': 'repnz', 'rep': 'repz',   # one prefix byte (f3), three spellings
     'xlatb': 'xlat', 'fwait': 'wait',
    'retn': 'ret', 'lret': 'retf', 'iretd': 'iret', 'pushad': 'pusha', 'popad': 'popa', 'pushfd': 'pushf', 'popfd': 'popf', 'int3': 'int3',
    'icebp': 'int1', 'ud2a': 'ud2', 'cwtl': 'cwde', 'cltd': 'cdq', 'jmpf': 'jmp', 'callf': 'call', 'ljmp': 'jmp', 'lcall': 'call',
}
STRING_OPS = ('movs', 'cmps', 'stos', 'lods', 'scas', 'ins', 'outs')
SIZE_SUFFIXED = ('lgdt', 'lidt', 'sgdt', 'sidt', 'call', 'ret', 'retf', 'push', 'pop', 'jmp', 'enter', 'leave', 'iret', 'pusha', 'popa', 'pushf', 'popf',
                 'jecxz', 'loop', 'loope', 'loopne', 'lcall', 'ljmp', 'lret')


class Unparsed(Exception):
    pass


def _num(s):
    s = s.strip()
    neg = s.startswith('-')
    if neg:
        s = s[1:].strip()
    if s.startswith('+'):
        s = s[1:].strip()
    if re.match(r'^0x[0-9a-fA-F]+$', s):
        v = int(s, 16)
    elif re.match(r'^[0-9]+$', s):
        v = int(s)
    else:
        raise Unparsed('number %r' % s)
    return -v if neg else v


def parse_operand(s):
    """-> canonical tuple"""
    s = s.strip()
    if not s:
        raise Unparsed('empty operand')
    # miasmX wraps an indirect branch operand in brackets: [DWORD PTR 123]
    m = re.match(r'^\[(\s*[A-Z]+ PTR .*)\]$', s)
    if m:
        s = m.group(1).strip()
    size = None
    m = re.match(r'^([A-Z]+) PTR\s*(.*)$', s)
    if m:
        if m.group(1) not in SIZES:
            raise Unparsed('size %r' % m.group(1))
        size = SIZES[m.group(1)]
        s = m.group(2).strip()
    seg = None
    m = re.match(r'^(es|cs|ss|ds|fs|gs):\s*(.*)$', s)
    if m:
        seg = m.group(1)
        s = m.group(2).strip()
        ismem = True
    else:
        ismem = size is not None
    low = s.lower()
    if not ismem and '[' not in s:
        if low in REG32 or low in REG16 or low in REG8 or low in SEGS or re.match(r'^(mm[0-7]|xmm[0-9]+|cr[0-7]|dr[0-7]|db[0-7]|tr[0-7]|st(\([0-7]\))?)$', low):
            if low == 'st':
                low = 'st(0)'
            low = re.sub(r'^db', 'dr', low)
            return ('reg', low)
        # far pointer seg:off  e.g. 0x10:0x1234
        m = re.match(r'^(\S+):(\S+)$', s)
        if m:
            return ('far', _num(m.group(1)) & 0xFFFF, _num(m.group(2)) & 0xFFFFFFFF)
        return ('imm', _num(s))
    # memory
    regs = {}
    disp = 0
    body = s
    m = re.match(r'^([^\[]*)\[(.*)\]\s*$', s)
    outside = ''
    if m:
        outside = m.group(1).strip()
        body = m.group(2)
    else:
        body = s
    if outside:
        disp += _num(outside)
    body = body.replace(' ', '')
    if body:
        terms = re.findall(r'[+-]?[^+-]+', body)
        for t in terms:
            sign = -1 if t.startswith('-') else 1
            t = t.lstrip('+-')
            m = re.match(r'^([a-z]+)(?:\*(\d))?$', t)
            if m and (m.group(1) in REG32 or m.group(1) in REG16 or m.group(1) in ('eiz', 'riz')):
                if m.group(1) in ('eiz', 'riz'):
                    continue
                if sign < 0:
                    raise Unparsed('negative register')
                sc = int(m.group(2) or 1)
                regs[m.group(1)] = regs.get(m.group(1), 0) + sc
                continue
            m = re.match(r'^(\d)\*([a-z]+)$', t)
            if m and (m.group(2) in REG32 or m.group(2) in REG16):
                regs[m.group(2)] = regs.get(m.group(2), 0) + int(m.group(1))
                continue
            disp += sign * _num(t)
    if not regs and seg == 'ds':
        seg = None       # objdump spells the default segment of an absolute address
    return ('mem', size, seg, tuple(sorted(regs.items())), disp & 0xFFFFFFFF)


def split_operands(s):
    out, depth, cur = [], 0, ''
    for ch in s:
        if ch in '[(':
            depth += 1
        elif ch in '])':
            depth -= 1
        if ch == ',' and depth == 0:
            out.append(cur)
            cur = ''
        else:
            cur += ch
    if cur.strip():
        out.append(cur)
    return [x.strip() for x in out]


def parse_insn(text, who):
    """text -> (prefix words tuple, mnemonic, [operands]) ; raises Unparsed"""
    text = text.strip()
    text = re.sub(r'\s*[#<].*$', '', text) if who == 'objdump' else text
    if not text or text.startswith('(bad)') or '(bad)' in text or text.startswith('.byte'):
        raise Unparsed('bad')
    words = text.split(None, 1)
    pfx = []
    while words and words[0] in PREFIX_WORDS | SUPERFLUOUS and len(words) > 1:
        pfx.append(words[0])
        words = words[1].split(None, 1)
    if words[0] in PREFIX_WORDS | SUPERFLUOUS and len(words) == 1:
        raise Unparsed('prefix only')
    if words[0].endswith(';'):       # miasmX: 'rep; ret'
        pfx.append(words[0][:-1])
        words = words[1].split(None, 1)
    mn = words[0]
    rest = words[1] if len(words) > 1 else ''
    ops = [parse_operand(o) for o in split_operands(rest)] if rest.strip() else []
    return tuple(pfx), mn, ops


def canon(text, who, addr=None, length=None, opsize16=False, dup_size=False):
    pfx, mn, ops = parse_insn(text, who)
    if dup_size:
        # the input repeats an operand- / address-size prefix: objdump names the repeat 'data16' / 'addr16'; it is the same instruction
        pfx = tuple(p for p in pfx if p not in ('data16', 'addr16', 'data32', 'addr32'))
    if who == 'objdump' and mn in ('ljmp', 'lcall', 'jmp', 'call') and ops and ops[0][0] == 'far':
        pass
    if any(p in SUPERFLUOUS for p in pfx):
        raise Unparsed('superfluous prefix')
    pfx = tuple(sorted(MN_ALIAS.get(p, p) for p in pfx))
    mn = MN_ALIAS.get(mn, mn)
    # string instructions: objdump prints the implicit operands, miasmX a size suffix
    for stem in STRING_OPS:
        if mn == stem and who == 'objdump':
            sz = None
            for o in ops:
                if o[0] == 'mem' and o[1]:
                    sz = o[1]
                elif o[0] == 'reg' and sz is None:
                    sz = 8 if o[1] in REG8 else 16 if o[1] in REG16 else 32 if o[1] in REG32 else None
            if sz in (8, 16, 32):
                segov = [o[2] for o in ops if o[0] == 'mem' and o[2] not in (None, 'es', 'ds')]
                mn = stem + {8: 'b', 16: 'w', 32: 'd'}[sz]
                ops = [('segov', segov[0])] if segov else []
            break
        if mn in (stem + 'b', stem + 'w', stem + 'd') and who in ('miasm', 'line'):
            segov = [o[2] for o in ops if o[0] == 'mem' and o[2] not in (None, 'es', 'ds')]
            ops = [('segov', segov[0])] if segov else []
            break
    if who == 'objdump':
        for base in SIZE_SUFFIXED:
            if mn in (base + 'w', base + 'd') and base not in ('ins', 'outs'):
                mn = base
                break
        mn = MN_ALIAS.get(mn, mn)
    # relative branches: objdump prints the absolute target
    if who == 'objdump' and addr is not None and ops and ops[0][0] == 'imm' and \
            (mn.startswith('j') or mn in ('call', 'loop', 'loope', 'loopne', 'jecxz', 'jcxz', 'xbegin')) and len(ops) == 1:
        mask = 0xFFFF if opsize16 else 0xFFFFFFFF
        ops = [('imm', (ops[0][1] - (addr + length)) & mask)]
    if mn == 'jcxz':
        mn = 'jecxz' if who == 'objdump' else mn
    # int 3 (one-byte form) is int3
    if mn == 'int' and len(ops) == 1 and ops[0] == ('imm', 3) and who in ('miasm', 'line') and length == 1:
        mn, ops = 'int3', []
    # 'int3' (cc) and 'int 3' (cd 03) are two encodings of one assembly instruction: GNU as turns 'int $3' into cc
    if mn == 'int3':
        mn, ops = 'int', [('imm', 3)]
    # implicit operands an input line may omit
    if who == 'line':
        if mn in ('shld', 'shrd') and len(ops) == 2:
            ops = ops + [('reg', 'cl')]
        if mn in ('aam', 'aad') and not ops:
            ops = [('imm', 10)]
        if mn in ('fadd', 'fsub', 'fsubr', 'fmul', 'fdiv', 'fdivr', 'fcom', 'fcomp') and len(ops) == 1 and ops[0][0] == 'reg':
            ops = [('reg', 'st(0)')] + ops
        if mn in ('shl', 'shr', 'sar', 'sal', 'rol', 'ror', 'rcl', 'rcr') and len(ops) == 1:
            ops = ops + [('imm', 1)]
    if mn == 'xchg' and len(ops) == 2 and ops[0] == ops[1] == ('reg', 'eax'):
        mn, ops = 'nop', []
    # xchg is symmetric
    if mn == 'xchg' and len(ops) == 2:
        ops = sorted(ops, key=repr)
    # objdump's SSE compare pseudo-ops: cmpeqps x, y == cmpps x, y, 0
    m = re.match(r'^cmp(eq|lt|le|unord|neq|nlt|nle|ord)(ps|pd|ss|sd)$', mn)
    if m and not (len(ops) == 3):
        mn = 'cmp' + m.group(2)
        ops = ops + [('imm', ['eq', 'lt', 'le', 'unord', 'neq', 'nlt', 'nle', 'ord'].index(m.group(1)))]
    # objdump's carry-less multiply pseudo-ops: pclmullqhqdq x, y == pclmulqdq x, y, 0x10
    m = re.match(r'^pclmul([lh])q([lh])qdq$', mn)
    if m and len(ops) == 2:
        mn = 'pclmulqdq'
        ops = ops + [('imm', (1 if m.group(1) == 'h' else 0) | (0x10 if m.group(2) == 'h' else 0))]
    # implicit xmm0 of the SSE4.1 variable blends
    if mn in ('blendvps', 'blendvpd', 'pblendvb') and len(ops) == 3 and ops[2] == ('reg', 'xmm0'):
        ops = ops[:2]
    # far pointers: miasmX prints "offset, segment"
    if who == 'miasm' and mn in ('call', 'jmp') and len(ops) == 2 and ops[0][0] == 'imm' and ops[1][0] == 'imm':
        ops = [('far', ops[1][1] & 0xFFFF, ops[0][1] & 0xFFFFFFFF)]
    if who == 'line' and mn in ('call', 'jmp') and len(ops) == 2 and ops[0][0] == 'imm' and ops[1][0] == 'imm':
        ops = [('far', ops[0][1] & 0xFFFF, ops[1][1] & 0xFFFFFFFF)]     # GNU as: segment, offset
    # miasmX spells a 16-bit immediate push "push WORD PTR imm"
    if who in ('miasm', 'line') and mn == 'push' and len(ops) == 1 and ops[0][0] == 'mem' and ops[0][1] == 16 and not ops[0][3] and ops[0][2] is None:
        ops = [('imm', ops[0][4])]
    return pfx, mn, ops


def width_hint(ops):
    for o in ops:
        if o[0] == 'reg':
            if o[1] in REG8:
                return 8
            if o[1] in REG16:
                return 16
            if o[1] in REG32:
                return 32
        if o[0] == 'mem' and o[1] in (8, 16, 32):
            return o[1]
    return 32


def same(a, b, addr16=False):
    """compare two canonical instructions; returns None if equal else a short reason"""
    (pa, ma, oa), (pb, mb, ob) = a, b
    if ma != mb:
        return 'mnemonic %s vs %s' % (ma, mb)
    if pa != pb:
        return 'prefix words %s vs %s' % (pa, pb)
    if len(oa) != len(ob):
        return 'operand count %d vs %d' % (len(oa), len(ob))
    w = min(width_hint(oa), width_hint(ob))
    for x, y in zip(oa, ob):
        if x[0] != y[0]:
            if x[0] == 'imm' and y[0] == 'mem' and not y[3] and (x[1] - y[4]) % (1 << 32) == 0:
                return 'absmem-unsized: an absolute memory operand is rendered as a bare number'
            return 'operand kind %s vs %s' % (x[0], y[0])
        if x[0] == 'imm':
            if (x[1] - y[1]) % (1 << 32) and (x[1] - y[1]) % (1 << w):
                return 'immediate %#x vs %#x' % (x[1] & 0xFFFFFFFF, y[1] & 0xFFFFFFFF)
        elif x[0] == 'mem':
            am = 0xFFFF if (addr16 or any(r in REG16 for r, _ in x[3]) or any(r in REG16 for r, _ in y[3])) else 0xFFFFFFFF
            if x[2:4] != y[2:4] or (x[4] - y[4]) & am:
                return 'memory operand %s vs %s' % (x, y)
            if x[1] is not None and y[1] is not None and x[1] != y[1]:
                return 'memory size %s vs %s' % (x[1], y[1])
        elif x != y:
            return 'operand %s vs %s' % (x, y)
    return None
