"""C08 - read/write sets of lifted semantics never omit a real dependency (integer core; partial claim).

On every path of the decoder exploration whose mnemonic is in the integer core, R = union of
get_r(mem_read=True) and Wr = union of get_w() over the REAL lifted assignment list.  The reference is
vf/x86spec/sem.py.  For every input resource r not in R: "two pre-states equal except on r with a different
DEFINED reference output" must be unsat (sat = omitted read).  For every resource w the reference can change
and that is not in Wr: "exists a state with post(w) != pre(w)" must be unsat (sat = omitted write).  Memory
accesses of the reference must be covered by an ExprMem of R / Wr at a provably equal address, unless the
access provably does not matter.  Over-approximation is never reported.  The x87/MMX/SSE part of the
property (table inclusion, not a solver verdict) is NOT built.
"""
import sys
import time

import z3

from vf import common, ir2smt
from vf.symex import core, instr
from vf.symex.core import SInt, Engine, PathAbort
from vf.x86 import explore as E
from vf.x86spec import sem as SPEC
from vf.oracles import cpu32
from vf.checks import c05, c04, c11

PROP = 'C08'


def worker_init():
    c04.worker_init()
    global SEM, EH, X, M
    SEM, EH, X, M = c11.SEM, c11.EH, c11.X, c11.M


def rw_sets(affs):
    R, W = set(), set()
    for a in affs:
        R |= set(a.get_r(mem_read=True))
        W |= set(a.get_w())
        if isinstance(a.dst, X.ExprMem):
            # the address of a store is an input of the instruction
            R |= set(a.dst.arg.get_r(mem_read=True))
    return R, W


def analyse(eng, name, args, affs, l, opbits, adbits=32):
    c = ir2smt.Ctx(strict=False, flat=True)
    cs = ir2smt.Ctx(strict=False, flat=True)
    cs.ids = c.ids
    cs.mem = cs.mem0 = c.mem
    S = SPEC.Spec(cs, z3.BitVecVal(l, 32))
    SPEC.sem(name, S, args, {'opsize': opbits, 'l': l, 'adsize': adbits})
    R, W = rw_sets(affs)
    rid = set((x.name, x.size) for x in R if isinstance(x, X.ExprId))
    wid = set((x.name, x.size) for x in W if isinstance(x, X.ExprId))
    rmem = [x for x in R if isinstance(x, X.ExprMem)]
    wmem = [x for x in W if isinstance(x, X.ExprMem)]
    pre = z3.And(*S.assume) if S.assume else z3.BoolVal(True)
    outs = []           # (label, term, defined)
    for (nm, sz), t in S.post.items():
        outs.append((nm, t, S.defined.get((nm, sz), z3.BoolVal(True))))
    probe = z3.BitVec('probe_addr', 32)
    outs.append(('mem', z3.Select(S.mem, probe), z3.BoolVal(True)))
    if S.eip is not None:
        outs.append(('eip', S.eip, z3.BoolVal(True)))
    bad = []
    # omitted reads: registers and flags
    inputs = [(k, v) for k, v in cs.ids.items() if k[0] in SPEC.GPR or k[0] in SPEC.FLAGS]
    for (nm, sz), v in inputs:
        if (nm, sz) in rid:
            continue
        v2 = z3.BitVec('other_%s' % nm, sz)
        for lab, t, d in outs:
            if lab == nm:
                continue          # a resource that is (conditionally) left unchanged trivially "depends" on itself
            t2 = z3.substitute(t, (v, v2))
            if t2.eq(t):
                continue
            d2 = z3.substitute(d, (v, v2))
            p2 = z3.substitute(pre, (v, v2))
            st, m = eng.find(z3.And(pre, p2, d, d2, t != t2))
            if st == 'sat':
                bad.append(('omitted-read:%s' % nm, 'the initial %s influences %s but is not in the read set' % (nm, lab), m, (nm, sz), lab))
                break
            if st != 'unsat':
                bad.append(('unknown', 'read %s' % nm, None, None, None))
                break
    # omitted writes: registers and flags
    for (nm, sz), t in S.post.items():
        if (nm, sz) in wid or nm == 'eip':
            continue
        d = S.defined.get((nm, sz), z3.BoolVal(True))
        st, m = eng.find(z3.And(pre, d, t != cs.id(nm, sz)))
        if st == 'sat':
            bad.append(('omitted-write:%s' % nm, '%s can be modified but is not in the write set' % nm, m, (nm, sz), nm))
        elif st != 'unsat':
            bad.append(('unknown', 'write %s' % nm, None, None, None))
    # memory reads of the reference
    def covered(ad, nb, mems):
        """an access of the reference is covered when some ExprMem of the sets intersects it in every state (over-approximation
        of the location is accepted, a cell that never meets the accessed bytes is not)"""
        from vf.checks import c16
        fv = set(str(x) for x in c16.free_vars(ad))
        for mm in mems:
            cm = ir2smt.Ctx(strict=False, flat=True)
            cm.ids = c.ids
            cm.mem = c.mem
            a = SPEC.zx(ir2smt.tr(mm.arg, cm), 32)
            n2 = mm.size // 8
            meets = z3.Or(z3.ULT(ad - a, n2), z3.ULT(a - ad, nb))
            if eng.prove(z3.Implies(pre, meets)):
                return True
            apart.append(z3.Not(meets))
        return False
    apart = []      # per uncovered access: for every cell of the sets, "does not meet the access" (the witness must satisfy all of them)
    stores = []
    # separate the reference's loads from its stores: Spec.store appends (addr, n) right before updating S.mem
    loads = list(cs.mem_reads)
    store_addrs = [ad_ for ad_, _ in S.stores]
    for ad, nb in loads:
        is_store = any(ad is ad_ for ad_ in store_addrs)
        if is_store:
            # a location the processor modifies must meet a cell of the WRITE set
            del apart[:]
            if covered(ad, nb, wmem):
                continue
            st, m = eng.find(z3.And(pre, *apart))
            bad.append(('omitted-mem-write', 'the processor writes a %d-byte memory operand that no ExprMem of the write set meets' % nb, m if st == 'sat' else None, None, 'mem'))
            break
        del apart[:]
        if covered(ad, nb, rmem) or covered(ad, nb, wmem):
            continue
        mem2 = cs.mem0
        for i in range(nb):
            mem2 = z3.Store(mem2, ad + i, z3.BitVec('otherbyte%d' % i, 8))
        hit = False
        for lab, t, d in outs:
            t2 = z3.substitute(t, (cs.mem0, mem2))
            if t2.eq(t):
                continue
            st, m = eng.find(z3.And(pre, d, z3.substitute(d, (cs.mem0, mem2)), t != t2, *apart))
            if st == 'sat':
                bad.append(('omitted-mem', 'a %d-byte memory operand influences %s (or is written) but no ExprMem at that address is in the read/write sets' % (nb, lab), m, None, lab))
                hit = True
                break
        if hit:
            break
    return c, S, R, W, bad


def run_rw(job, res, tier):
    ejob = job[1]
    prefixes, opc, last, sibmode, rowname = ejob
    title = 'rw %s|%s%s %s' % (' '.join('%02x' % p for p in prefixes), ' '.join('%02x' % b for b in opc), '' if last is None else ' {%02x..}' % last[0], rowname)
    seen = set()

    def on_path(eng, d):
        if d.kind != 'ok':
            return ('SKIP',)
        i = d.instr
        name = i.m.name
        if not SPEC.in_core(name) or name not in SEM.mnemo_func:
            return ('SKIP',)
        if any(p in (0xF2, 0xF3) for p in i.prefix):
            return ('SKIP',)
        c11.reset_singletons()
        opbits = 16 if i.opmode == E.A.u16 else 32
        try:
            affs = EH.get_instr_expr(i, X.ExprInt(M.uint32(i.l)), [])
            args = i.arg_expr
        except PathAbort:
            raise
        except Exception:
            return ('SKIP',)
        try:
            c, S, R, W, bad = analyse(eng, name, args, affs, i.l, opbits, 16 if i.admode == E.A.u16 else 32)
        except SPEC.Unsupported as ex:
            return ('UNSUP', str(ex))
        except (ir2smt.IllTyped, ir2smt.Untranslatable, z3.Z3Exception) as ex:
            return ('UNSUP', '%s: %s' % (name, str(ex)[:60]))
        if not bad:
            return ('OK', name)
        out = []
        for key, desc, m, res_, lab in bad:
            if m is None:
                out.append((key, desc, None, None))
                continue
            out.append((key, desc, E.witness_bytes(eng, d, m)[:i.l], sorted(str(x) for x in R) + ['|'] + sorted(str(x) for x in W)))
        return ('BAD', name, c04.form_of(args), out)
    eng, rs = E.explore(ejob, on_path, max_paths=60000, max_seconds=900 if tier == 'quick' else 2400)
    res['paths'] += eng.stats['paths']
    res['queries'] += eng.stats['queries']
    res['solver_s'] += eng.stats['solver_s']
    for u in eng.unexplored:
        res['inconclusive'].append('%s: %s' % (title, u))
    ok = 0
    for r in rs:
        if r[0] == 'OK':
            ok += 1
            res['obligations'] += 1
            res['proved'] += 1
        elif r[0] == 'BAD':
            res['obligations'] += 1
            _, name, form, lst = r
            for key, desc, byts, sets in lst:
                if byts is None:
                    res['inconclusive'].append('%s: %s %s' % (title, name, desc))
                    continue
                k = '%s:%s/%s' % (key, name, form)
                if k in seen:
                    continue
                seen.add(k)
                res['candidates'].append({'key': k, 'desc': '%s: %s (sets %s) e.g. %s' % (name, desc, ' '.join(sets)[:120], ' '.join('%02x' % b for b in byts)),
                                          'data': {'bytes': byts, 'what': key}})
        elif r[0] == 'SKIP':
            pass
        elif r[0] == 'UNSUP':
            res['skipped'] = res.get('skipped', 0) + 1
        else:
            res['inconclusive'].append('%s: %s' % (title, r[1] if len(r) > 1 else r[0]))
    if ok:
        res['nontrivial'] += 1
        if len(res['samples']) < 2:
            res['samples'].append({'row': title, 'paths': len(rs), 'verdict': 'no register, flag or memory dependency of the reference is missing from get_r/get_w on %d path(s)' % ok})


def jobs(tier, seed):
    out = [('rw', j[1], j[2]) for j in c04.jobs(tier, seed)]
    # MMX / SSE part (instructions lifted through the uninterpreted 'MMX' operator): operand inclusion
    for ps in ((), (0x66,), (0xF2,), (0xF3,)):
        for ej in E.make_jobs(tier, seed, prefix_sets=[ps], sib='one' if tier == 'quick' else 'min', per_signature=False):
            if E._row_is_mmx(ej[1], ej[2]):
                out.append(('sse', ej, tier))
    # x87 part: memory forms of the escape opcodes d8..df (values are modelled by uninterpreted operators: operand inclusion)
    for ps in ((), (0x67,)) if tier == 'quick' else ((), (0x67,), (0x66,), (0x2e,)):
        for ej in E.make_jobs(tier, seed, prefix_sets=[ps], sib='one' if tier == 'quick' else 'min', per_signature=False):
            if (ej[1] and 0xD8 <= ej[1][0] <= 0xDF) or (not ej[1] and ej[2] and all(0xD8 <= b <= 0xDF for b in ej[2])):
                out.append(('x87', ej, tier))
    return out


import re as _re
# two-operand packed / scalar operations whose result depends on the old destination (SDM): arithmetic, logic, compare, pack / unpack,
# shifts, shuffles of two sources, horizontal ops, insertions.  Pure moves, conversions and unary operations are NOT listed.
DST_READ = _re.compile(r'^(#p#(add|sub|mul|madd|and|or|xor|cmp|unpck|ack|max|min|avg|sad|sign|hadd|hsub|sll|srl|sra|insr|alignr|shufb|blend)'
                       r'|(add|sub|mul|div|and|andn|or|xor|max|min|cmp|unpck[lh]|hadd|hsub|addsub|shuf|sqrts|rcps|rsqrts)#?[ps]?)')


def dst_is_read(i):
    """does the processor's result depend on the initial value of the destination operand?"""
    name = i.m.name
    afs = E.A.x86_afs
    regreg = all(isinstance(a, dict) and not a.get(afs.ad) for a in i.arg[:2])
    if name == 'mov#ups#':
        # f3 / f2 forms are movss / movsd: register-to-register they replace the low element only
        return (0xF3 in i.prefix or 0xF2 in i.prefix) and regreg
    if name in ('mov#lps#', 'mov#hps#'):
        # unprefixed / 66 loads replace one half of the destination register
        return not (0xF3 in i.prefix or 0xF2 in i.prefix) and isinstance(i.arg[0], dict) and not i.arg[0].get(afs.ad)
    return bool(DST_READ.match(name))


FLAG_WRITERS = ('comis#s#', 'ucomis#s#', '#p#test')      # write zf, pf, cf (and clear of, nf, af): SDM vol. 2


def sse_sets(i, affs):
    R, W = set(), set()
    for a in affs:
        R |= set(a.get_r(mem_read=True))
        W |= set(a.get_w())
        if isinstance(a.dst, X.ExprMem):
            R |= set(a.dst.arg.get_r(mem_read=True))
    return R, W


def sse_missing(i, affs):
    """operand-inclusion obligations of an MMX/SSE instruction 'op dst, src[, imm]': the source operand (and every register its
    address is computed from) is read, the address registers of a memory destination are read, the destination is written,
    the compare instructions write zf/pf/cf.  Returns [(key, description)] of the omissions."""
    out = []
    R, W = sse_sets(i, affs)
    rn = set(x.name for x in R if isinstance(x, X.ExprId))
    wn = set(x.name for x in W if isinstance(x, X.ExprId))
    args = i.arg_expr
    if len(args) < 2:
        return out
    dst, src = args[0], args[1]

    def ids_of(e):
        return set(x.name for x in e.get_r(mem_read=True) if isinstance(x, X.ExprId))
    if isinstance(src, X.ExprMem):
        if src not in R:
            out.append(('sse-omitted-read:source-memory', 'the memory source operand %s is not in the read set' % src))
        for n in ids_of(src.arg) - rn:
            out.append(('sse-omitted-read:address-register', 'register %s of the source address is not in the read set' % n))
    elif isinstance(src, (X.ExprId, X.ExprSlice)):
        for n in ids_of(src) - rn:
            out.append(('sse-omitted-read:source-register', 'source register %s is not in the read set' % n))
    if dst_is_read(i) and isinstance(dst, (X.ExprId, X.ExprSlice)):
        for n in ids_of(dst) - rn:
            out.append(('sse-omitted-read:destination-register', 'the result depends on the old value of the destination register %s, which is not in the read set' % n))
    if isinstance(dst, X.ExprMem):
        for n in ids_of(dst.arg) - rn:
            out.append(('sse-omitted-read:address-register', 'register %s of the destination address is not in the read set' % n))
        if i.m.name not in FLAG_WRITERS and dst not in W:
            out.append(('sse-omitted-write:destination-memory', 'the memory destination %s is not in the write set' % dst))
    elif isinstance(dst, (X.ExprId, X.ExprSlice)) and i.m.name not in FLAG_WRITERS:
        for n in ids_of(dst) - wn:
            out.append(('sse-omitted-write:destination-register', 'destination register %s is not in the write set' % n))
    if i.m.name in FLAG_WRITERS:
        for f in ('zf', 'pf', 'cf'):
            if f not in wn:
                out.append(('sse-omitted-write:%s' % f, 'flag %s is written by the processor but is not in the write set' % f))
    return out


def run_sse(job, res, tier):
    from vf.checks import c11
    ejob = job[1]
    prefixes, opc, last, sibmode, rowname = ejob
    title = 'sse rw %s|%s%s %s' % (' '.join('%02x' % p for p in prefixes), ' '.join('%02x' % b for b in opc), '' if last is None else ' {%02x..}' % last[0], rowname)
    seen = set()

    def on_path(eng, d):
        if d.kind != 'ok':
            return ('SKIP',)
        i = d.instr
        if '#' not in i.m.name or i.m.name in SEM.mnemo_func:
            return ('SKIP',)
        c11.reset_singletons()
        try:
            affs = EH.get_instr_expr(i, X.ExprInt(M.uint32(i.l)), [])
        except PathAbort:
            raise
        except Exception:
            return ('SKIP',)           # C11's subject
        miss = sse_missing(i, affs)
        if miss:
            return ('BAD', i.m.name, miss, E.witness_bytes(eng, d)[:i.l])
        return ('OK',)
    eng, rs = E.explore(ejob, on_path, max_paths=20000, max_seconds=300)
    res['paths'] += eng.stats['paths']
    res['queries'] += eng.stats['queries']
    res['solver_s'] += eng.stats['solver_s']
    for u in eng.unexplored:
        res['inconclusive'].append('%s: %s' % (title, u))
    ok = 0
    for r in rs:
        if r[0] == 'OK':
            ok += 1
            res['obligations'] += 1
            res['proved'] += 1
        elif r[0] == 'BAD':
            res['obligations'] += 1
            for key, desc in r[2]:
                k = '%s:%s' % (key, r[1])
                if k in seen:
                    continue
                seen.add(k)
                res['candidates'].append({'key': k, 'desc': '%s: %s e.g. %s' % (r[1], desc, ' '.join('%02x' % b for b in r[3])),
                                          'data': {'bytes': list(r[3]), 'what': key, 'sse': True}})
    if ok:
        res['nontrivial'] += 1
        if len(res['samples']) < 1:
            res['samples'].append({'row': title, 'paths': len(rs), 'verdict': 'source operands / address registers read and destinations written on %d path(s)' % ok})


# x87 instructions with a memory operand, by escape byte and ModRM reg field (SDM vol. 2, table A-7 ff.): 'r' = the operand is
# read, 'w' = written; (class, st0 is read)
X87_MEM = {
    0xD8: {k: ('r', True) for k in range(8)},
    0xD9: {0: ('r', False), 2: ('w', True), 3: ('w', True), 4: ('r', False), 5: ('r', False), 6: ('w', False), 7: ('w', False)},
    0xDA: {k: ('r', True) for k in range(8)},
    0xDB: {0: ('r', False), 1: ('w', True), 2: ('w', True), 3: ('w', True), 5: ('r', False), 7: ('w', True)},
    0xDC: {k: ('r', True) for k in range(8)},
    0xDD: {0: ('r', False), 1: ('w', True), 2: ('w', True), 3: ('w', True), 4: ('r', False), 6: ('w', False), 7: ('w', False)},
    0xDE: {k: ('r', True) for k in range(8)},
    0xDF: {0: ('r', False), 1: ('w', True), 2: ('w', True), 3: ('w', True), 4: ('r', False), 5: ('r', False), 6: ('w', True), 7: ('w', True)},
}


def x87_missing(i, affs, esc, reg):
    """operand-inclusion obligations of an x87 instruction with a memory operand: the cell is read (loads, arithmetic,
    compares, environment loads) or written (stores), the registers of its address are read, st0 is read where the
    operation consumes it.  Only the address is compared (the lifter's cell may be wider or narrower: not judged here)."""
    out = []
    cls = X87_MEM.get(esc, {}).get(reg)
    mems = [a for a in i.arg_expr if isinstance(a, X.ExprMem)]
    if cls is None or len(mems) != 1:
        return out
    m = mems[0]
    R, W = sse_sets(i, affs)
    rn = set(x.name for x in R if isinstance(x, X.ExprId))

    def same_cell(x):
        return isinstance(x, X.ExprMem) and x.arg == m.arg      # the selector is not compared (fnstenv names its cells without one)
    if cls[0] == 'r' and not any(same_cell(x) for x in R):
        out.append(('x87-omitted-read:memory-operand', 'the memory operand %s is read by the processor but no cell at that address is in the read set' % m))
    if cls[0] == 'w' and not any(same_cell(x) for x in W):
        out.append(('x87-omitted-write:memory-operand', 'the memory operand %s is written by the processor but no cell at that address is in the write set' % m))
    for n in set(x.name for x in m.arg.get_r(mem_read=True) if isinstance(x, X.ExprId)) - rn:
        out.append(('x87-omitted-read:address-register', 'register %s of the operand address is not in the read set' % n))
    if cls[1] and 'float_st0' not in rn:
        out.append(('x87-omitted-read:st0', 'st(0) is consumed by the operation but float_st0 is not in the read set'))
    return out


def run_x87(job, res, tier):
    from vf.checks import c11
    ejob = job[1]
    prefixes, opc, last, sibmode, rowname = ejob
    title = 'x87 rw %s|%s%s %s' % (' '.join('%02x' % p for p in prefixes), ' '.join('%02x' % b for b in opc), '' if last is None else ' {%02x..}' % last[0], rowname)
    seen = set()

    def on_path(eng, d):
        if d.kind != 'ok':
            return ('SKIP',)
        i = d.instr
        wit = E.witness_bytes(eng, d)
        k = len(prefixes)
        if len(wit) < k + 2 or not 0xD8 <= wit[k] <= 0xDF or wit[k + 1] >= 0xC0:
            return ('SKIP',)
        c11.reset_singletons()
        try:
            affs = EH.get_instr_expr(i, X.ExprInt(M.uint32(i.l)), [])
        except PathAbort:
            raise
        except Exception:
            return ('SKIP',)           # not supported by the lifter / C11's subject
        miss = x87_missing(i, affs, wit[k], (wit[k + 1] >> 3) & 7)
        if miss:
            return ('BAD', i.m.name, miss, wit[:i.l])
        return ('OK',)
    eng, rs = E.explore(ejob, on_path, max_paths=20000, max_seconds=300)
    res['paths'] += eng.stats['paths']
    res['queries'] += eng.stats['queries']
    res['solver_s'] += eng.stats['solver_s']
    for u in eng.unexplored:
        res['inconclusive'].append('%s: %s' % (title, u))
    ok = 0
    for r in rs:
        if r[0] == 'OK':
            ok += 1
            res['obligations'] += 1
            res['proved'] += 1
        elif r[0] == 'BAD':
            res['obligations'] += 1
            for key, desc in r[2]:
                kk = '%s:%s' % (key, r[1])
                if kk in seen:
                    continue
                seen.add(kk)
                res['candidates'].append({'key': kk, 'desc': '%s: %s e.g. %s' % (r[1], desc, ' '.join('%02x' % b for b in r[3])),
                                          'data': {'bytes': list(r[3]), 'what': key, 'x87': True, 'esc': r[3][len(prefixes)], 'nprefix': len(prefixes)}})
    if ok:
        res['nontrivial'] += 1
        if len(res['samples']) < 1:
            res['samples'].append({'row': title, 'paths': len(rs), 'verdict': 'memory operand, address registers and st0 in the read / write set on %d path(s)' % ok})


def run_job(job):
    res = {'paths': 0, 'queries': 0, 'solver_s': 0.0, 'obligations': 0, 'proved': 0, 'candidates': [],
           'inconclusive': [], 'samples': [], 'programs': 1, 'nontrivial': 0}
    if job[0] == 'sse':
        run_sse(job, res, job[2])
    elif job[0] == 'x87':
        run_x87(job, res, job[2])
    else:
        run_rw(job, res, job[2])
    return res


REPLAY = r'''
# replay of a C08 counterexample: the real read/write sets vs a dependency shown on the reference semantics and
# confirmed on the host CPU by two runs differing in one resource (exit 1 = a real dependency is omitted)
import sys, random
import z3
from miasmx.arch.ia32_arch import x86mnemo, u16
import miasmx.arch.ia32_sem as SEM
import miasmx.tools.emul_helper as EH
import miasmx.expression.expression as X
import miasmx.tools.modint as M
from vf.oracles import cpu32
D = %(data)r
data = bytes(D['bytes']); what = D['what']
i = x86mnemo.dis(data + b'\x90' * 4)
affs = EH.get_instr_expr(i, X.ExprInt(M.uint32(i.l)), [])
R, W = set(), set()
for a in affs:
    R |= set(a.get_r(mem_read=True)); W |= set(a.get_w())
    if isinstance(a.dst, X.ExprMem): R |= set(a.dst.arg.get_r(mem_read=True))
print(data.hex(), str(i).strip()); print('  read set :', sorted(str(x) for x in R)); print('  write set:', sorted(str(x) for x in W))
kind, _, nm = what.partition(':')
names_r = set(x.name for x in R if isinstance(x, X.ExprId)); names_w = set(x.name for x in W if isinstance(x, X.ExprId))
bad = False
ran = 0
rnd = random.Random(1)
def by_reference():
    # the CPU could not run the instruction in the test window (16-bit addressing, privileged ...): confirm on the reference
    # semantics (itself validated against the CPU) with the same query as the check
    from vf import ir2smt
    from vf.x86spec import sem as SPEC
    import miasmx.arch.ia32_arch as A
    c = ir2smt.Ctx(strict=False, flat=True); S = SPEC.Spec(c, z3.BitVecVal(i.l, 32))
    SPEC.sem(i.m.name, S, i.arg_expr, {'opsize': 16 if i.opmode == A.u16 else 32, 'l': i.l, 'adsize': 16 if i.admode == A.u16 else 32})
    sz = 1 if nm in cpu32.FLAG_BITS else 32
    s = z3.Solver(); s.set('timeout', 60000)
    for a_ in S.assume: s.add(a_)
    if kind == 'omitted-write':
        if (nm, sz) not in S.post: return False
        pre = c.ids.get((nm, sz))
        if pre is None: pre = z3.BitVec('fresh_' + nm, sz)
        s.add(S.defined.get((nm, sz), z3.BoolVal(True))); s.add(S.post[(nm, sz)] != pre)
        return s.check() == z3.sat
    pre = c.ids.get((nm, sz))
    if pre is None: return False
    alt = z3.BitVec(nm + '_alt', sz)
    sub = lambda t: z3.substitute(t, (pre, alt))
    for a_ in S.assume: s.add(sub(a_))
    ds = []
    for k_, t in S.post.items():
        if k_[0] == nm: continue
        d_ = S.defined.get(k_, z3.BoolVal(True))
        ds.append(z3.And(d_, sub(d_), t != sub(t)))
    s.add(z3.Or(*ds)) if ds else s.add(False)
    return s.check() == z3.sat
def state():
    regs = dict((r, rnd.getrandbits(32)) for r in cpu32.REGS)
    for r in ('esp', 'ebp', 'esi', 'edi', 'ebx', 'eax', 'ecx', 'edx'):
        regs[r] = cpu32.WIN_BASE + 0x800 + 4 * rnd.randrange(0, 64)
    flags = dict((f, rnd.getrandbits(1)) for f in cpu32.FLAG_BITS); flags['df'] = 0
    return regs, flags
if kind == 'omitted-read' and nm not in names_r:
    for t in range(40):
        regs, flags = state()
        window = dict((k, rnd.getrandbits(8)) for k in range(0x700, 0xa00))
        r1 = cpu32.run(data[:i.l], regs, flags, window)
        regs2, flags2 = dict(regs), dict(flags)
        if nm in flags2: flags2[nm] ^= 1
        else: regs2[nm] ^= 1 << rnd.randrange(0, 5)
        r2 = cpu32.run(data[:i.l], regs2, flags2, window)
        if r1.get('fault') or r2.get('fault'): continue
        ran += 1
        o1 = dict(r1['regs']); o1.update(r1['flags']); o2 = dict(r2['regs']); o2.update(r2['flags'])
        diff = [k for k in o1 if o1[k] != o2[k] and k != nm] + (['mem'] if r1['window'] != r2['window'] else [])
        if diff: bad = True; print('CPU: changing only', nm, 'changes', diff); break
elif kind == 'omitted-write' and nm not in names_w:
    for t in range(40):
        regs, flags = state()
        window = dict((k, rnd.getrandbits(8)) for k in range(0x700, 0xa00))
        r1 = cpu32.run(data[:i.l], regs, flags, window)
        if r1.get('fault'): continue
        ran += 1
        before = flags.get(nm, regs.get(nm)); after = r1['flags'].get(nm, r1['regs'].get(nm))
        if before != after: bad = True; print('CPU:', nm, 'changes from', before, 'to', after); break
if kind in ('omitted-read', 'omitted-write') and not bad and ran == 0 and nm not in (names_r if kind == 'omitted-read' else names_w):
    bad = by_reference()
    print('the CPU cannot run this form in the test window; reference semantics says:', 'dependency is real' if bad else 'no dependency')
if kind in ('omitted-mem', 'omitted-mem-write'):
    # same criterion as the check: a memory operand the reference needs, and no ExprMem of the sets based on the same registers
    from vf import ir2smt
    from vf.x86spec import sem as SPEC
    from vf.checks import c16
    import miasmx.arch.ia32_arch as A
    c = ir2smt.Ctx(strict=False, flat=True); S = SPEC.Spec(c, z3.BitVecVal(i.l, 32)); SPEC.sem(i.m.name, S, i.arg_expr, {'opsize': 16 if i.opmode == A.u16 else 32, 'l': i.l, 'adsize': 16 if i.admode == A.u16 else 32})
    sv = z3.Solver(); sv.set('timeout', 60000)
    for a_ in S.assume: sv.add(a_)
    stores = [ad_ for ad_, _ in S.stores]
    for ad, nb in c.mem_reads:
        pool = [m_ for m_ in (W if any(ad is x_ for x_ in stores) and D['what'].startswith('omitted-mem-write') else (R | W)) if isinstance(m_, X.ExprMem)]
        cov = False
        for m_ in pool:
            am = SPEC.zx(ir2smt.tr(m_.arg, c), 32)
            sv.push(); sv.add(z3.Not(z3.Or(z3.ULT(ad - am, m_.size // 8), z3.ULT(am - ad, nb)))); r_ = sv.check(); sv.pop()
            if r_ == z3.unsat: cov = True; break
        if not cov: bad = True; print('the reference accesses %%d bytes at %%s; no ExprMem of the set meets them in every state' %% (nb, z3.simplify(ad)))
print('C08 replay:', 'VIOLATED' if bad else 'holds')
sys.exit(1 if bad else 0)
'''


REPLAY_SSE = r'''
# replay of a C08 counterexample, MMX/SSE part: the real read/write sets of the lifted instruction vs the operands the
# decoder names (exit 1 = a source operand / address register is not read, or the destination / a compare's flags not written)
import sys
from miasmx.arch.ia32_arch import x86mnemo
import miasmx.arch.ia32_sem as SEM, miasmx.tools.emul_helper as EH, miasmx.expression.expression as X, miasmx.tools.modint as M
from vf.checks import c08
c08.X = X; c08.SEM = SEM
from vf.x86 import explore as E
import miasmx.arch.ia32_arch as A_
E.A = A_
D = %(data)r
i = x86mnemo.dis(bytes(D['bytes']) + b'\x90' * 4)
affs = EH.get_instr_expr(i, X.ExprInt(M.uint32(i.l)), [])
R, W = c08.sse_sets(i, affs)
print(bytes(D['bytes']).hex(), str(i).strip()); print('  read set :', sorted(str(x) for x in R)); print('  write set:', sorted(str(x) for x in W))
if D.get('x87'):
    b = D['bytes']; k = D['nprefix']
    miss = c08.x87_missing(i, affs, D['esc'], (b[k + 1] >> 3) & 7)
else:
    miss = c08.sse_missing(i, affs)
for k, d in miss: print('  ', k, ':', d)
bad = any(k == D['what'] for k, d in miss)
print('C08 replay:', 'VIOLATED' if bad else 'holds')
sys.exit(1 if bad else 0)
'''


def make_replay(cnd):
    if cnd['data'].get('sse') or cnd['data'].get('x87'):
        return REPLAY_SSE % {'data': cnd['data']}
    return REPLAY % {'data': cnd['data']}


def main(argv=None):
    a = common.tier_seed(argv)
    t0 = time.time()
    js = jobs(a.tier, a.seed)
    if a.only:
        js = [j for j in js if a.only in repr(j)]
    results, left = common.run_pool('vf.checks.c08', js, nproc=a.nproc, budget_s=1800 if a.tier == 'quick' else 9000)
    cov, cands, inconc, herr = c05.aggregate(results, left)
    cov['skipped_unsupported'] = sum(r.get('skipped', 0) for r in results if 'harness_error' not in r)
    cov['exhaustive'] = False
    cov['rule'] = 'a program = one (prefix set, opcode row) of the integer core; non-trivial = at least one path on which no dependency is missing'
    cov['functions_encoded'] = ['expression.expression:get_r/get_w of every node class (on the real lifted lists)', 'arch.ia32_sem semantic functions of the integer core', 'tools.emul_helper:get_instr_expr']
    cov['bounds'] = ('integer core by dependency queries; MMX/SSE instructions lifted through the uninterpreted MMX operator by operand inclusion (source operand, address registers, destination; zf/pf/cf for comis/ucomis/ptest), prefix sets (), 66, f2, f3; x87 NOT covered; rows/prefix sets of the core as C04; segment registers excluded (flat model); '
                     'a memory access counts as covered when an ExprMem of the set has a provably equal address and at least its size')
    if cov['proved'] == 0:
        herr.append('vacuous: nothing proved')
    assumptions = ['reference semantics vf/x86spec/sem.py', 'flat segments', 'E1', 'z3 5.1.0', 'the CPU confirms register/flag dependencies at replay (two runs differing in one resource)']
    return common.finish(PROP, a.tier, a.seed, 'model_checking', t0, cov, assumptions, cands, herr, inconc, make_replay)


if __name__ == '__main__':
    sys.exit(main())
