"""C19 - equivalent spellings of an assembly line assemble identically.

Both spellings are real text lines going through the real lexer, parser and assembler (public API) with
the SAME symbolic numbers; on every joint path the two candidate lists must be equal as sets of byte
strings, for all number values (byte-wise equality of terms proved by the solver).
Covered rewrites: letter case of registers / size keywords, white space, optional '%', 'st' vs 'st(0)',
term order inside brackets, displacement outside brackets, '-n' vs '+(2^32-n)', n vs n + k*2^32, and the
Intel <-> AT&T transliteration, and the numeric base: the placeholder numeral of a symbolic number is also spelled in hexadecimal
(0x / 0X prefix, lower / upper case digits), so the real lexer's own base handling runs before the placeholder is mapped back.
"""
import random
import sys
import time

import z3

from vf import common
from vf.symex import core, instr
from vf.symex.core import SInt, SBool, Engine, PathAbort, bvv
from vf.symex.instr import SBytes
from vf.x86 import explore as E
from vf.x86 import asmdrive as AD
from vf.checks import c05

PROP = 'C19'


def worker_init():
    AD.worker_init()


def pairs(tier):
    """(tag, templateA, attA, templateB, attB, relation) ; relation: None | 'neg' ({1} = 2^32 - {0}) | 'wrap' ({1} = {0} + k 2^32)"""
    P = []
    ops2 = ['mov', 'add', 'cmp', 'xor', 'test', 'lea', 'sub', 'and'] if tier == 'thorough' else ['mov', 'add', 'cmp', 'lea']
    for mn in ops2:
        sz = '' if mn == 'lea' else 'DWORD PTR '
        P += [
            ('order-disp', '%s eax, %s[ebx+{0}]' % (mn, sz), False, '%s eax, %s[{0}+ebx]' % (mn, sz), False, None),
            ('disp-outside', '%s eax, %s[ebx+{0}]' % (mn, sz), False, '%s eax, %s{0}[ebx]' % (mn, sz), False, None),
            ('order-index', '%s eax, %s[ebx+esi*2+{0}]' % (mn, sz), False, '%s eax, %s[esi*2+ebx+{0}]' % (mn, sz), False, None),
            ('order-index2', '%s eax, %s[ebx+esi*2+{0}]' % (mn, sz), False, '%s eax, %s[{0}+esi*2+ebx]' % (mn, sz), False, None),
            ('disp-outside-index', '%s eax, %s[ebx+esi*4+{0}]' % (mn, sz), False, '%s eax, %s{0}[ebx+esi*4]' % (mn, sz), False, None),
            ('scale-order', '%s eax, %s[ebx+esi*4]' % (mn, sz), False, '%s eax, %s[ebx+4*esi]' % (mn, sz), False, None),
            ('case-reg', '%s eax, %s[ebx+{0}]' % (mn, sz), False, '%s EAX, %s[EBX+{0}]' % (mn, sz), False, None),
            ('case-keyword', '%s eax, %s[ebx+{0}]' % (mn, sz), False, '%s eax, %s[ebx+{0}]' % (mn, sz.lower()), False, None),
            ('spaces', '%s eax, %s[ebx+{0}]' % (mn, sz), False, '%s   eax ,   %s[ ebx + {0} ]' % (mn, sz), False, None),
            ('percent', '%s eax, %s[ebx+{0}]' % (mn, sz), False, '%s %%eax, %s[%%ebx+{0}]' % (mn, sz), False, None),
            ('minus', '%s eax, %s[ebx+{0}]' % (mn, sz), False, '%s eax, %s[ebx-{1}]' % (mn, sz), False, 'neg'),
            ('wrap', '%s eax, %s[ebx+{0}]' % (mn, sz), False, '%s eax, %s[ebx+{1}]' % (mn, sz), False, 'wrap'),
        ]
        if mn != 'lea':
            att = {'mov': 'movl', 'add': 'addl', 'cmp': 'cmpl', 'xor': 'xorl', 'test': 'testl', 'sub': 'subl', 'and': 'andl'}[mn]
            P += [
                ('imm-minus', '%s eax, {0}' % mn, False, '%s eax, -{1}' % mn, False, 'neg'),
                ('imm-wrap', '%s eax, {0}' % mn, False, '%s eax, {1}' % mn, False, 'wrap'),
                ('att-mem', '%s eax, DWORD PTR [ebx+{0}]' % mn, False, '%s {0}(%%ebx), %%eax' % att, True, None),
                ('att-imm', '%s eax, {0}' % mn, False, '%s ${0}, %%eax' % att, True, None),
                ('att-sib', '%s eax, DWORD PTR [ebx+esi*4+{0}]' % mn, False, '%s {0}(%%ebx,%%esi,4), %%eax' % att, True, None),
                ('att-store', '%s DWORD PTR [ebp+{0}], ecx' % mn, False, '%s %%ecx, {0}(%%ebp)' % att, True, None),
                ('att-mem-imm', '%s DWORD PTR [ebx+{0}], {1}' % mn, False, '%s ${1}, {0}(%%ebx)' % att, True, None),
                ('att-byte', '%s BYTE PTR [ebx+{0}], cl' % mn, False, '%s %%cl, {0}(%%ebx)' % (att[:-1] + 'b'), True, None),
                ('att-abs', '%s eax, DWORD PTR [{0}]' % mn, False, '%s {0}, %%eax' % att, True, None),
            ]
    # base / index / scale combinations incl. the same register as base and index, index-only, no displacement
    for mn, att in (('lea', 'leal'), ('mov', 'movl')):
        sz = '' if mn == 'lea' else 'DWORD PTR '
        for b, i in (('ebx', 'esi'), ('ebx', 'ebx'), ('ecx', 'ecx'), ('ebp', 'eax'), ('esp', 'edi')):
            for sc in (1, 2, 4, 8):
                if i == 'esp':
                    continue
                P.append(('att-sib-%s-%s-%d' % (b, i, sc), '%s edx, %s[%s+%s*%d+{0}]' % (mn, sz, b, i, sc), False, '%s {0}(%%%s,%%%s,%d), %%edx' % (att, b, i, sc), True, None))
                P.append(('att-sib0-%s-%s-%d' % (b, i, sc), '%s edx, %s[%s+%s*%d]' % (mn, sz, b, i, sc), False, '%s (%%%s,%%%s,%d), %%edx' % (att, b, i, sc), True, None))
                P.append(('order-sib-%s-%s-%d' % (b, i, sc), '%s edx, %s[%s+%s*%d+{0}]' % (mn, sz, b, i, sc), False, '%s edx, %s[%s*%d+%s+{0}]' % (mn, sz, i, sc, b), False, None))
        for i in ('esi', 'ebx'):
            for sc in (2, 4, 8):
                P.append(('att-index-only-%s-%d' % (i, sc), '%s edx, %s[%s*%d+{0}]' % (mn, sz, i, sc), False, '%s {0}(,%%%s,%d), %%edx' % (att, i, sc), True, None))
        P.append(('att-two-regs', '%s edx, %s[ebx+esi]' % (mn, sz), False, '%s (%%ebx,%%esi), %%edx' % att, True, None))
        P.append(('att-two-same', '%s edx, %s[ebx+ebx]' % (mn, sz), False, '%s (%%ebx,%%ebx), %%edx' % att, True, None))
    # numeric base: the placeholder numeral spelled in hexadecimal goes through the real lexer's own conversion (lower / upper case
    # prefix and digits) before it is mapped back to the symbolic number
    for tag, spec in (('hex', '{%d:#x}'), ('hex-upper', '{%d:#X}'), ('hex-mixed', '0x{%d:X}'), ('hex-upper-prefix', '0X{%d:x}')):
        P += [
            ('%s-imm' % tag, 'mov eax, {0}', False, 'mov eax, ' + spec % 0, False, None),
            ('%s-disp' % tag, 'mov eax, DWORD PTR [ebx+{0}]', False, 'mov eax, DWORD PTR [ebx+%s]' % (spec % 0), False, None),
            ('%s-outside' % tag, 'mov eax, DWORD PTR [ebx+{0}]', False, 'mov eax, DWORD PTR %s[ebx]' % (spec % 0), False, None),
            ('%s-imm8' % tag, 'add cl, {0}', False, 'add cl, ' + spec % 0, False, None),
            ('%s-att-imm' % tag, 'add eax, {0}', False, 'addl $%s, %%eax' % (spec % 0), True, None),
            ('%s-att-disp' % tag, 'mov eax, DWORD PTR [ebx+{0}]', False, 'movl %s(%%ebx), %%eax' % (spec % 0), True, None),
        ]
    # narrower operands: sign convention modulo 2^16 / 2^8, AT&T transliteration with the w / b suffix
    for mn in ('mov', 'test'):
        P += [
            ('imm16-minus-' + mn, '%s ax, {0}' % mn, False, '%s ax, -{1}' % mn, False, 'neg16'),
            ('imm16-minus-mem-' + mn, '%s WORD PTR [ebx+4], {0}' % mn, False, '%s WORD PTR [ebx+4], -{1}' % mn, False, 'neg16'),
            ('imm8-minus-' + mn, '%s cl, {0}' % mn, False, '%s cl, -{1}' % mn, False, 'neg8'),
            ('att-imm16-' + mn, '%s bx, {0}' % mn, False, '%sw ${0}, %%bx' % mn, True, None),
            ('att-imm8-' + mn, '%s cl, {0}' % mn, False, '%sb ${0}, %%cl' % mn, True, None),
        ]
    # instructions with a sign-extended imm8 form next to the full-width one: the choice must depend on the value only,
    # whatever the syntax and the sign convention (both spellings negative; Intel hexadecimal vs negative modulo 2^16)
    for mn in ('add', 'cmp', 'and', 'sbb'):
        P += [
            ('att-neg-imm16-' + mn, '%s bx, -{0}' % mn, False, '%sw $-{0}, %%bx' % mn, True, 'lim15'),
            ('att-neg-imm16-mem-' + mn, '%s WORD PTR [ebx+4], -{0}' % mn, False, '%sw $-{0}, 4(%%ebx)' % mn, True, 'lim15'),
            ('att-neg-imm32-' + mn, '%s ebx, -{0}' % mn, False, '%sl $-{0}, %%ebx' % mn, True, 'lim31'),
            ('att-neg-imm8-' + mn, '%s cl, -{0}' % mn, False, '%sb $-{0}, %%cl' % mn, True, 'lim7'),
            ('att-alu-imm16-' + mn, '%s bx, {0}' % mn, False, '%sw ${0}, %%bx' % mn, True, 'lim15'),
            ('alu-imm16-minus-' + mn, '%s bx, {0}' % mn, False, '%s bx, -{1}' % mn, False, 'neg16'),
            ('att-alu-imm16-minus-' + mn, '%sw ${0}, %%bx' % mn, True, '%sw $-{1}, %%bx' % mn, True, 'neg16'),
        ]
    P += [
        ('att-neg-imul16', 'imul bx, cx, -{0}', False, 'imulw $-{0}, %cx, %bx', True, 'lim15'),
        ('att-neg-imul32', 'imul ebx, ecx, -{0}', False, 'imull $-{0}, %ecx, %ebx', True, 'lim31'),
        ('att-neg-push', 'push -{0}', False, 'pushl $-{0}', True, 'lim31'),
    ]
    # letter case of register names, per register class (each class has its own table / lexer route)
    P += [
        ('case-r32', 'mov eax, ebx', False, 'mov EAX, EBX', False, None),
        ('case-r32-mixed', 'mov esi, edi', False, 'mov Esi, eDI', False, None),
        ('case-r16', 'mov ax, bx', False, 'mov AX, BX', False, None),
        ('case-r8', 'mov al, bh', False, 'mov AL, BH', False, None),
        ('case-r32-mem', 'mov eax, DWORD PTR [ebx+esi*2+{0}]', False, 'mov EAX, DWORD PTR [EBX+ESI*2+{0}]', False, None),
        ('case-mm', 'movq mm0, mm1', False, 'movq MM0, MM1', False, None),
        ('case-mm-one', 'movq mm2, mm3', False, 'movq MM2, mm3', False, None),
        ('case-mm-mem', 'movq mm1, QWORD PTR [ebx+{0}]', False, 'movq MM1, qword ptr [EBX+{0}]', False, None),
        ('case-xmm', 'movaps xmm0, xmm1', False, 'movaps XMM0, XMM1', False, None),
        ('case-xmm-one', 'movaps xmm3, xmm4', False, 'movaps xmm3, XMM4', False, None),
        ('case-xmm-mem', 'movaps xmm2, XMMWORD PTR [ebx+{0}]', False, 'movaps XMM2, xmmword ptr [ebx+{0}]', False, None),
        ('case-xmm-r32', 'cvtsi2sd xmm0, ecx', False, 'cvtsi2sd XMM0, ECX', False, None),
        ('case-cr', 'mov eax, cr0', False, 'mov EAX, CR0', False, None),
        ('case-dr', 'mov eax, dr1', False, 'mov EAX, DR1', False, None),
        ('case-sreg', 'mov ax, es', False, 'mov AX, ES', False, None),
        ('case-mm-imm', 'psrlq mm1, {0}', False, 'psrlq MM1, {0}', False, None),
    ]
    P += [
        ('st0', 'fadd st, st(1)', False, 'fadd st(0), st(1)', False, None),
        ('st0b', 'fxch st(1)', False, 'fxch st(1)', False, None),
        ('case-seg', 'mov eax, DWORD PTR es:[ebx+{0}]', False, 'mov eax, DWORD PTR ES:[ebx+{0}]', False, None),
        ('case-st', 'fld st(1)', False, 'fld ST(1)', False, None),
        ('push-minus', 'push {0}', False, 'push -{1}', False, 'neg'),
        ('push-wrap', 'push {0}', False, 'push {1}', False, 'wrap'),
        ('att-push', 'push {0}', False, 'pushl ${0}', True, None),
        ('att-push-mem', 'push DWORD PTR [ebx+{0}]', False, 'pushl {0}(%ebx)', True, None),
        ('byte-case', 'mov BYTE PTR [ebx+{0}], cl', False, 'mov byte ptr [ebx+{0}], CL', False, None),
        ('offset-flat', 'mov eax, {0}', False, 'mov eax, OFFSET FLAT:{0}', False, None),
        ('att-lea', 'lea eax, [ebx+esi*2+{0}]', False, 'leal {0}(%ebx,%esi,2), %eax', True, None),
        ('att-movzx', 'movzx eax, BYTE PTR [ebx+{0}]', False, 'movzbl {0}(%ebx), %eax', True, None),
        ('att-shl', 'shl eax, {0}', False, 'shll ${0}, %eax', True, None),
        ('att-jmp-ind', 'jmp DWORD PTR [ebx+{0}]', False, 'jmp *{0}(%ebx)', True, None),
        ('att-fld', 'fld DWORD PTR [ebx+{0}]', False, 'flds {0}(%ebx)', True, None),
    ]
    return P


def prelude_pairs(tier):
    """spelling pairs after a prelude line that introduced spelling A's operand text (first use in the process, by another
    instruction): the candidate set of a line must not depend on which instruction met the operand's spelling first"""
    from vf.checks import c12d
    P = []
    for optext, seconds in c12d.HIST_OPS.items():
        if ' PTR ' in optext:
            kw, rest = optext.split(' PTR ')
            other = '%s ptr %s' % (kw.lower(), rest)
        else:
            other = optext.replace('[ebx+esi*2+', '[esi*2+ebx+')
        for second in seconds[:2]:
            for first in c12d.HIST_FIRST:
                if first == second:
                    continue
                P.append(('after-' + first.split()[0], second.replace('{O}', optext).replace('{N}', '{0}'), False,
                          second.replace('{O}', other).replace('{N}', '{0}'), False, None, first.replace('{O}', optext).replace('{N}', '{0}')))
    return P


def check_pair(p, res, tier):
    tag, ta, atta, tb, attb, rel = p[:6]
    prelude = p[6] if len(p) > 6 else None
    title = '%r  ~  %r' % (ta, tb)
    eng = Engine(width=72, timeout_ms=20000, max_paths=4000, max_seconds=180)

    def fn(eng):
        n0 = SInt.var('n0', 0, (1 << 32) - 1)
        if rel == 'neg':
            n1 = SInt.var('n1', 1, (1 << 32) - 1)
            eng.assume(z3.Extract(31, 0, n0.t + n1.t) == 0)
            eng.assume(n0.t != bvv(0))
            syms = [n0, n1]
        elif rel in ('neg16', 'neg8'):
            # -n1 and n0 = 2^w - n1 are one value modulo the operand width; both fit the operand (n1 <= 2^(w-1))
            w = 16 if rel == 'neg16' else 8
            n1 = SInt.var('n1', 1, 1 << (w - 1))
            eng.assume(n0.t == bvv(1 << w) - n1.t)
            syms = [n0, n1]
        elif rel in ('lim7', 'lim15', 'lim31'):
            # the number stays inside the operand's range (out-of-range numbers: the 'att-imm16' / 'att-imm8' pairs)
            eng.assume(z3.ULE(n0.t, bvv(1 << int(rel[3:]))))
            syms = [n0, SInt.var('n1', 0, (1 << 32) - 1)]
        elif rel == 'wrap':
            n1 = SInt.var('n1', 0, (1 << 35) - 1)
            eng.assume(z3.Extract(31, 0, n1.t) == z3.Extract(31, 0, n0.t))
            syms = [n0, n1]
        else:
            n1 = SInt.var('n1', 0, (1 << 32) - 1)
            syms = [n0, n1]
        outs = []
        ph = {}
        if prelude is not None:
            # numerals never printed before in this process: both operand texts are new to any cache keyed by text
            ph = {ta: AD.fresh_placeholders(len(syms)), tb: AD.fresh_placeholders(len(syms))}
            try:
                AD.asm(prelude, syms, ph=ph[ta])
            except PathAbort:
                raise
            except Exception:
                pass
        for tmpl, att in ((ta, atta), (tb, attb)):
            try:
                c = AD.asm(tmpl, syms, att=att, ph=ph.get(tmpl))
                outs.append(('ok', [AD.as_sbytes(x) for x in c] if isinstance(c, list) and not (c and isinstance(c[0], list)) else []))
            except PathAbort:
                raise
            except ValueError as ex:
                outs.append(('reject', str(ex)[:50]))
            except Exception as ex:
                outs.append(('exc', type(ex).__name__))
        (ka, ca), (kb, cb) = outs
        if 'exc' in (ka, kb):
            return ('SKIP', 'assembler raises (C10)')
        if ka != kb:
            return ('CEX', 'accept', 'one spelling is %s, the other %s' % (ka if ka != 'ok' else 'accepted', kb if kb != 'ok' else 'accepted'), eng.model_inputs(eng.witness()))
        if ka == 'reject':
            return ('OK',)
        if not ca and not cb:
            return ('OK',)
        # equality as sets
        for side, (xs, ys) in (('A', (ca, cb)), ('B', (cb, ca))):
            for x in xs:
                found = False
                for y in ys:
                    eq = (x == y)
                    if eq is True or (isinstance(eq, SBool) and eng.prove(eq.t)):
                        found = True
                        break
                if not found:
                    m = eng.witness()
                    cond = []
                    for y in ys:
                        if len(y.items) == len(x.items):
                            eq = (x == y)
                            if isinstance(eq, SBool):
                                cond.append(z3.Not(eq.t))
                    if cond:
                        st, m2 = eng.find(z3.And(*cond))
                        if st == 'sat':
                            m = m2
                    return ('CEX', 'set', 'a candidate of spelling %s has no equal in the other list (%d vs %d candidates)' % (side, len(ca), len(cb)), eng.model_inputs(m))
        return ('OK',)
    rs = eng.explore(fn)
    res['paths'] += eng.stats['paths']
    res['queries'] += eng.stats['queries']
    res['solver_s'] += eng.stats['solver_s']
    for u in eng.unexplored:
        res['inconclusive'].append('%s: %s' % (title, u))
    ok = 0
    seen = set()
    for r in rs:
        if r[0] == 'OK':
            ok += 1
            res['obligations'] += 1
            res['proved'] += 1
        elif r[0] == 'CEX':
            res['obligations'] += 1
            key = '%s:%s:%s' % (r[1], tag, ta.split()[0])
            if key in seen:
                continue
            seen.add(key)
            res['candidates'].append({'key': key, 'desc': '%s: %s with %s' % (title, r[2], r[3]),
                                      'data': {'a': ta, 'atta': atta, 'b': tb, 'attb': attb, 'prelude': prelude, 'vals': [r[3].get('n0', 0), r[3].get('n1', 0)]}})
        elif r[0] == 'SKIP':
            pass
        else:
            res['inconclusive'].append('%s: %s' % (title, r[1] if len(r) > 1 else r[0]))
    if ok:
        res['nontrivial'] += 1
        if len(res['samples']) < 3:
            res['samples'].append({'pair': title, 'paths': len(rs), 'verdict': 'identical candidate sets on %d joint path(s), all number values' % ok})


def jobs(tier, seed):
    ps = pairs(tier)
    pp = prelude_pairs(tier)
    return [('pairs', tier, ps[i:i + 4]) for i in range(0, len(ps), 4)] + [('pairs', tier, pp[i:i + 30]) for i in range(0, len(pp), 30)]


def run_job(job):
    _, tier, ps = job
    res = {'paths': 0, 'queries': 0, 'solver_s': 0.0, 'obligations': 0, 'proved': 0, 'candidates': [],
           'inconclusive': [], 'samples': [], 'programs': 0, 'nontrivial': 0}
    for p in ps:
        res['programs'] += 1
        check_pair(p, res, tier)
    return res


REPLAY = r'''
# replay of a C19 counterexample on the real assembler (exit 1 = the two spellings assemble differently)
import sys
from miasmx.arch.ia32_arch import x86mnemo
D = %(data)r
def run(t, att):
    line = t.format(*D['vals'])
    try:
        c = (x86mnemo.asm_att if att else x86mnemo.asm)(line)
        return line, sorted(set(bytes(x).hex() for x in c if not isinstance(x, list)))
    except ValueError as ex:
        return line, 'rejected'
    except Exception as ex:
        return line, 'raises ' + type(ex).__name__
if D.get('prelude'): print('prelude:', run(D['prelude'], False))
la, ra = run(D['a'], D['atta']); lb, rb = run(D['b'], D['attb'])
print(repr(la), '->', ra); print(repr(lb), '->', rb)
bad = ra != rb and not (str(ra).startswith('raises') or str(rb).startswith('raises'))
print('C19 replay:', 'VIOLATED' if bad else 'holds')
sys.exit(1 if bad else 0)
'''


def make_replay(cnd):
    return REPLAY % {'data': cnd['data']}


def main(argv=None):
    a = common.tier_seed(argv)
    t0 = time.time()
    js = jobs(a.tier, a.seed)
    if a.only:
        js = [(k, t, [p for p in ps if a.only in repr(p)]) for k, t, ps in js]
        js = [j for j in js if j[2]]
    results, left = common.run_pool('vf.checks.c19', js, nproc=a.nproc, budget_s=1500 if a.tier == 'quick' else 5400)
    cov, cands, inconc, herr = c05.aggregate(results, left)
    cov['exhaustive'] = False
    cov['rule'] = 'a program = one pair of spellings of a line with shared symbolic numbers; non-trivial = at least one joint path proved'
    cov['functions_encoded'] = ['core.parse_ad + arch.ia32_att grammars (real PLY lexers/parsers on real text)', 'ia32_arch:parse_mnemo/parse_asm_x86/mnemo_from_att/arg_set_numpy_imm/normalize_args/asm_candidates/asm_all_candidate']
    cov['bounds'] = ('%d spelling pairs over %s; numbers symbolic in [0,2^32) (wrap clause: second number in [0,2^35) congruent mod 2^32); '
                     '%d pairs (keyword case / term order) checked after a prelude line in which another instruction introduced spelling A\'s operand text (fresh numerals: first use in the process); '
                     'decimal-vs-hexadecimal spelling not covered' % (len(pairs(a.tier)), 'mov/add/cmp/lea (+xor/test/sub/and thorough), push, x87, movzx, shl, jmp', len(prelude_pairs(a.tier))))
    if cov['proved'] == 0:
        herr.append('vacuous: nothing proved')
    assumptions = ['numbers substituted right after lexing', 'z3 5.1.0', 'proxies']
    return common.finish(PROP, a.tier, a.seed, 'model_checking', t0, cov, assumptions, cands, herr, inconc, make_replay)


if __name__ == '__main__':
    sys.exit(main())
