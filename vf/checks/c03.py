"""C03 - assemble/disassemble round trip is a fixpoint (shares the symbolic assembler paths of C02).

Forward (solver): for every accepted line class and every candidate b with symbolic numbers, the real
decoder accepts b and consumes exactly len(b) bytes for all number values.  Text layer (witnesses, labelled
so): asm(str(dis(b))) contains b.  See vf/checks/c02.py.
Converse (solver): on every path of the symbolic decoder exploration the real Intel rendering (render mode: symbolic
numbers as placeholder numerals) goes back through the real parser and the original bytes must be among the
candidates for ALL byte values of the path; reported only for canonical encodings (GNU as reproduces the bytes from
the rendering).  See vf/checks/c09.py / vf/x86/roundtrip.py.
"""
import sys
from vf.checks import c02

worker_init = c02.worker_init
run_job = c02.run_job

if __name__ == '__main__':
    sys.exit(c02.main(which='C03'))
