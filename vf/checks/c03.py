"""C03 - assemble/disassemble round trip is a fixpoint (shares the symbolic assembler paths of C02).

Forward (solver): for every accepted line class and every candidate b with symbolic numbers, the real
decoder accepts b and consumes exactly len(b) bytes for all number values.  Text layer (witnesses, labelled
so): asm(str(dis(b))) contains b.  See vf/checks/c02.py.
"""
import sys
from vf.checks import c02

worker_init = c02.worker_init
run_job = c02.run_job

if __name__ == '__main__':
    sys.exit(c02.main(which='C03'))
