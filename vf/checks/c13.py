"""C13 - simplifier output is canonical: idempotent and insensitive to operand order / nesting.

(i)  expr_simp(copy(expr_simp(e))) is structurally equal to expr_simp(e)       - for all constants;
(ii) for every permutation / re-association e' of the operands of a commutative-associative node,
     expr_simp(e') is structurally equal to expr_simp(e)                        - for all constants.
Structural equality of two outputs whose constants are terms over the symbolic inputs is a z3
formula (node-by-node), proved valid under the joint path condition.
The PYTHONHASHSEED clause is not addressed (DESIGN 5/C13).
"""
import itertools
import random
import sys
import time

import z3

from vf import common
from vf.gen import shapes as G
from vf.symex import core, instr
from vf.symex.core import SInt, Engine, PathAbort
from vf.checks import c05

PROP = 'C13'
CHUNK = 25


def worker_init():
    c05.worker_init()
    global X, H, M
    X, H, M = c05.X, c05.H, c05.M
    from vf.x86 import explore as E
    E.worker_init()


# -------------------------------------------------------------------------------------------------
def struct_eq(a, b):
    """z3 Bool: a and b are the same expression (python False/True when decided syntactically)"""
    if type(a) is not type(b):
        return False
    if isinstance(a, X.ExprInt):
        if a.arg.size != b.arg.size:
            return False
        x, y = a.arg.arg, b.arg.arg
        if isinstance(x, int) and isinstance(y, int):
            return x == y
        return core.term_of(x) == core.term_of(y)
    if isinstance(a, X.ExprId):
        return a.name == b.name and a.size == b.size
    if isinstance(a, X.ExprMem):
        if a.size != b.size:
            return False
        sa, sb = isinstance(a.segm, X.Expr), isinstance(b.segm, X.Expr)
        if sa != sb:
            return False
        if sa:
            return _all([struct_eq(a.arg, b.arg), struct_eq(a.segm, b.segm)])
        return struct_eq(a.arg, b.arg)
    if isinstance(a, X.ExprAff):
        return _all([struct_eq(a.dst, b.dst), struct_eq(a.src, b.src)])
    if isinstance(a, X.ExprOp):
        if a.op != b.op or len(a.args) != len(b.args):
            return False
        return _all(struct_eq(x, y) for x, y in zip(a.args, b.args))
    if isinstance(a, X.ExprCond):
        return _all([struct_eq(a.cond, b.cond), struct_eq(a.src1, b.src1), struct_eq(a.src2, b.src2)])
    if isinstance(a, X.ExprSlice):
        if a.start != b.start or a.stop != b.stop:
            return False
        return struct_eq(a.arg, b.arg)
    if isinstance(a, X.ExprCompose):
        if len(a.args) != len(b.args):
            return False
        rs = []
        for (x, s1, t1), (y, s2, t2) in zip(a.args, b.args):
            if s1 != s2 or t1 != t2:
                return False
            rs.append(struct_eq(x, y))
        return _all(rs)
    return a == b


def _all(it):
    ts = []
    for r in it:
        if r is False:
            return False
        if r is True:
            continue
        ts.append(r)
    if not ts:
        return True
    return z3.And(*ts) if len(ts) > 1 else ts[0]


# -------------------------------------------------------------------------------------------------
def operand_pool(n):
    a, b, c = ('id', 'a', n), ('id', 'b', n), ('id', 'c', n)
    K = ('int', 0, n)
    pool = [a, b, c, K, ('op', '-', (a,)), ('op', '-', (b,))]
    if n >= 8:
        pool.append(('mem', ('id', 'p', 32), n))
    pool.append(('op', '<<', (a, K)))
    pool.append(('op', '>>', (b, ('id', 'c', n))))
    pool.append(('cond', c, a, b))
    return pool


def near_duplicate_families(n):
    """operands that differ in exactly one field: they stress the total order used for canonical sorting"""
    a, b, c, d = ('id', 'a', n), ('id', 'b', n), ('id', 'c', n), ('id', 'd', n)
    K, K1 = ('int', 0, n), ('int', 1, n)
    fams = [
        [('cond', c, a, b), ('cond', c, a, d), ('cond', c, d, b), ('cond', d, a, b), ('cond', c, a, K)],
        [('op', '<<', (a, K)), ('op', '<<', (a, b)), ('op', '>>', (a, K)), ('op', '<<', (b, K)), ('op', '<<', (a, K1))],
        [('op', '-', (a,)), ('op', '-', (b,)), ('op', 'parity', (a,)), ('op', '-', (('op', '<<', (a, K)),))],
        [a, ('id', 'a', n) if False else ('id', 'aa', n), b, K, K1],
    ]
    # mirrored operands of every operation whose argument order matters (equal multisets of children, different terms)
    for o in [x for x in G.BINARY if x not in G.ASSOC]:
        fams.append([('op', o, (a, b)), ('op', o, (b, a)), ('op', o, (a, a))])
    fams.append([('cond', c, a, b), ('cond', c, b, a), ('cond', a, c, b), ('cond', b, a, c)])
    if n >= 8:
        p, q = ('id', 'p', 32), ('id', 'q', 32)
        fams.append([('mem', p, n), ('mem', q, n), ('mem', ('op', '+', (p, ('int', 0, 32))), n), ('mem', ('op', '+', (p, ('int', 1, 32))), n)])
    if n in (8, 16, 32):
        z, y = ('id', 'z', 2 * n), ('id', 'y', 2 * n)
        fams.append([('slice', z, 0, n), ('slice', z, n, 2 * n), ('slice', y, 0, n), ('slice', z, n // 2, n // 2 + n)])
    if n >= 16:
        h = n // 2
        x1, x2 = ('id', 'x', h), ('id', 'w', h)
        fams.append([('compose', ((x1, 0, h), (x2, h, n))), ('compose', ((x2, 0, h), (x1, h, n))), ('compose', ((x1, 0, h), (('int', 0, h), h, n))),
                     ('compose', ((('int', 0, h), 0, h), (x1, h, n)))])
    return fams


def variants(op, xs, rnd, limit):
    """re-orderings and re-associations of op(xs...)"""
    out = []
    perms = list(itertools.permutations(range(len(xs))))
    for p in perms:
        ys = [xs[i] for i in p]
        out.append(('op', op, tuple(ys)))
        if len(ys) >= 3:
            # left-nested, right-nested
            l = ('op', op, (ys[0], ys[1]))
            for y in ys[2:]:
                l = ('op', op, (l, y))
            out.append(l)
            r = ('op', op, (ys[-2], ys[-1]))
            for y in reversed(ys[:-2]):
                r = ('op', op, (y, r))
            out.append(r)
        if len(ys) == 4:
            out.append(('op', op, (('op', op, (ys[0], ys[1])), ('op', op, (ys[2], ys[3])))))
            out.append(('op', op, (ys[0], ('op', op, (ys[1], ys[2])), ys[3])))
    base = out[0]
    rest = out[1:]
    if limit and len(rest) > limit:
        rnd.shuffle(rest)
        rest = rest[:limit]
    return base, rest


def jobs(tier, seed):
    rnd = random.Random(seed)
    out = []
    widths = [32, 8] if tier == 'quick' else [32, 8, 16, 64, 1]
    # (ii) order / nesting
    perm_jobs = []
    for n in widths:
        pool = operand_pool(n)
        for op in G.ASSOC:
            combos = []
            for k in (2, 3, 4):
                cs = list(itertools.combinations_with_replacement(range(len(pool)), k))
                if tier == 'quick':
                    rnd.shuffle(cs)
                    cs = cs[:{2: 20, 3: 14, 4: 4}[k]] if n == 32 else cs[:{2: 8, 3: 5, 4: 1}[k]]
                else:
                    if k == 4:
                        rnd.shuffle(cs)
                        cs = cs[:60]
                    elif k == 3 and n != 32:
                        rnd.shuffle(cs)
                        cs = cs[:60]
                combos += cs
            for cmb in combos:
                xs = [pool[i] for i in cmb]
                # every constant occurrence is its own symbolic constant
                base, rest = variants(op, xs, rnd, 6 if tier == 'quick' else 23)
                perm_jobs.append(('perm', base, rest))
    # near-duplicate operands: all pairs and triples inside each family (never sampled away)
    for n in widths:
        for fam in near_duplicate_families(n):
            for op in (G.ASSOC if n == 32 or tier == 'thorough' else ['+', '&']):
                for k in (2, 3):
                    for cmb in itertools.combinations(range(len(fam)), k):
                        xs = [fam[i] for i in cmb]
                        base, rest = variants(op, xs, rnd, 5 if tier == 'quick' else 23)
                        perm_jobs.append(('perm', base, rest))
                # an unrelated operand in between
                for cmb in itertools.combinations(range(len(fam)), 2):
                    xs = [fam[cmb[0]], ('id', 'zz', n), fam[cmb[1]]]
                    base, rest = variants(op, xs, rnd, 5 if tier == 'quick' else 23)
                    perm_jobs.append(('perm', base, rest))
    # cancelling pairs (x, -x under +; x, x under ^ & |) separated by operands of every kind: all orders and nestings, never sampled
    for n in widths:
        a, b, c = ('id', 'a', n), ('id', 'b', n), ('id', 'c', n)
        K = ('int', 0, n)
        xs_ = [a, ('op', '<<', (a, K)), ('cond', c, a, b)] + ([('mem', ('id', 'p', 32), n)] if n >= 8 else [])
        ys_ = [b, K, ('op', '-', (b,)), ('op', '>>', (b, c)), ('cond', c, b, a), ('id', 'zz', n)] + ([('mem', ('id', 'q', 32), n)] if n >= 8 else [])
        for x in (xs_ if n == 32 or tier == 'thorough' else xs_[:1]):
            for y in ys_:
                for op in G.ASSOC:
                    if op == '*':
                        continue
                    pair = [x, ('op', '-', (x,))] if op == '+' else [x, x]
                    base, rest = variants(op, pair + [y], rnd, 0)
                    perm_jobs.append(('perm', base, rest))
            if n == 32:
                base, rest = variants('+', [x, ('op', '-', (x,)), ys_[0], ys_[1]], rnd, 12 if tier == 'quick' else 0)
                perm_jobs.append(('perm', base, rest))
    # (i) idempotence over the C05 shapes
    sh = G.c05_shapes(tier if tier == 'quick' else 'quick', seed, widths=widths if tier == 'quick' else None)
    if tier == 'thorough':
        sh = G.c05_shapes('quick', seed) + [s for s in G.depth2(32)[::7]]
        sh = list(dict.fromkeys(G.renumber(s) for s in sh))
    sh = sh + [G.renumber(x) for x in merge_shapes()]
    idem = [('idem', s, None) for s in dict.fromkeys(sh)]
    # (ii) inside an embedding context: the operands of the commutative node sit in a memory address, a segment selector, a
    # condition, a slice, a non-commutative operation, a concatenation (canonical form must not depend on where the node sits)
    ctx_jobs = []
    w32 = [j for j in perm_jobs if G.width(j[1]) == 32]
    rnd.shuffle(w32)
    per_ctx = 6 if tier == 'quick' else 40
    for ci, ctx in enumerate(sorted(CONTEXTS)):
        for j in w32[ci * per_ctx:(ci + 1) * per_ctx]:
            ctx_jobs.append(('perm@' + ctx, j[1], j[2][:4 if tier == 'quick' else 12]))
    allj = perm_jobs + ctx_jobs + idem + hseed_jobs(tier, perm_jobs, rnd)
    return [('chunk', tier, allj[i:i + CHUNK]) for i in range(0, len(allj), CHUNK)] + lifted_jobs(tier, seed)


def hseed_jobs(tier, perm_jobs, rnd):
    """string-hash independence: shapes whose canonical order has to be decided between operands that differ only in an
    identifier name (plain identifiers, segment selectors, addresses), and a sample of the permutation bases"""
    out = []
    n = 32
    p, q = ('id', 'p', 32), ('id', 'q', 32)
    fams = [
        [('memseg', p, n, 'ds'), ('memseg', p, n, 'es'), ('memseg', p, n, 'fs')],
        [('memseg', p, n, 'ds'), ('mem', p, n), ('memseg', q, n, 'ds')],
        [('id', 'eax', n), ('id', 'ebx', n), ('id', 'zf_long_name', n)],
        [('mem', p, n), ('mem', q, n), ('mem', ('id', 'r', 32), n)],
        [('op', '-', (('id', 'a', n),)), ('op', '-', (('id', 'b', n),)), ('op', '-', (('id', 'c', n),))],
        [('slice', ('id', 'z', 64), 0, 32), ('slice', ('id', 'y', 64), 0, 32), ('slice', ('id', 'x', 64), 0, 32)],
        [('cond', ('id', 'a', n), ('id', 'b', n), ('id', 'c', n)), ('cond', ('id', 'b', n), ('id', 'a', n), ('id', 'c', n)), ('id', 'c', n)],
        [('op', '>>', (('id', 'a', n), ('id', 'b', n))), ('op', '>>', (('id', 'b', n), ('id', 'a', n))), ('memseg', p, n, 'gs')],
    ]
    for fam in fams:
        for op in G.ASSOC:
            out.append(('hseed', ('op', op, tuple(fam)), None))
            out.append(('hseed', ('op', op, (fam[2], ('op', op, (fam[0], ('int', 0, n))), fam[1])), None))
    bases = [j[1] for j in perm_jobs if G.width(j[1]) == 32]
    rnd.shuffle(bases)
    for b in bases[:40 if tier == 'quick' else 400]:
        out.append(('hseed', b, None))
    return out


def hbuild(s, consts):
    """G.build plus memory accesses with a segment selector"""
    if s[0] == 'memseg':
        return X.ExprMem(hbuild(s[1], consts), s[2], X.ExprId(s[3], 16))
    if s[0] == 'op' and any(_has_memseg(x) for x in s[2]):
        return X.ExprOp(s[1], *[hbuild(x, consts) for x in s[2]])
    return G.build(s, consts, X, M)


def _has_memseg(s):
    if s[0] == 'memseg':
        return True
    if s[0] == 'op':
        return any(_has_memseg(x) for x in s[2])
    return False


def _strip_memseg(s):
    if s[0] == 'memseg':
        return ('mem', s[1], s[2])
    if s[0] == 'op':
        return ('op', s[1], tuple(_strip_memseg(x) for x in s[2]))
    return s


def skel_expr(e):
    """structure of a result expression as nested tuples (constants are concrete in the hash-seed jobs)"""
    if isinstance(e, X.ExprInt):
        return ('int', e.get_size(), int(e.arg))
    if isinstance(e, X.ExprId):
        return ('id', e.name, e.get_size())
    if isinstance(e, X.ExprMem):
        return ('mem', skel_expr(e.arg), e.size, skel_expr(e.segm) if isinstance(e.segm, X.Expr) else e.segm)
    if isinstance(e, X.ExprOp):
        return ('op', e.op, tuple(skel_expr(a) for a in e.args))
    if isinstance(e, X.ExprCond):
        return ('cond', skel_expr(e.cond), skel_expr(e.src1), skel_expr(e.src2))
    if isinstance(e, X.ExprSlice):
        return ('slice', skel_expr(e.arg), e.start, e.stop)
    if isinstance(e, X.ExprCompose):
        return ('compose', tuple((skel_expr(a[0]), a[1], a[2]) for a in e.args))
    return ('?', str(e))


def _hseed(shape, res, tier):
    """expr_simp with hash(str) an unconstrained symbolic integer per string: every path (= every way the comparisons on
    those integers can come out) must produce the same expression"""
    from vf.symex import instr
    eng = Engine(width=80, timeout_ms=20000, max_paths=400, max_seconds=90, path_seconds=20)
    plain = _strip_memseg(shape)
    name = 'hash-seed ' + G.show(plain) + (' [with segment selectors]' if plain != shape else '')
    nconst = len(G.ints_of(G.renumber(plain)))

    def fn(eng):
        instr.STR_HASH[0] = 'sym'
        try:
            consts = dict((k, 3 + 2 * k) for k in range(nconst + 1))
            e = hbuild(G.renumber(shape) if plain == shape else shape, consts)
            try:
                r = H.expr_simp(e)
            except PathAbort:
                raise
            except Exception:
                return ('SKIP',)
            return ('RES', skel_expr(r), str(r), eng.model_inputs(eng.witness()))
        finally:
            instr.STR_HASH[0] = 'real'
    rs = eng.explore(fn)
    res['paths'] += eng.stats['paths']
    res['queries'] += eng.stats['queries']
    res['solver_s'] += eng.stats['solver_s']
    for u in eng.unexplored:
        res['inconclusive'].append('%s: %s' % (name, u))
    out = [r for r in rs if r[0] == 'RES']
    for r in rs:
        if r[0] not in ('RES', 'SKIP'):
            res['inconclusive'].append('%s: %s' % (name, r[1] if len(r) > 1 else r[0]))
    if not out:
        return
    res['obligations'] += len(out)
    first = out[0]
    bad = [r for r in out[1:] if r[1] != first[1]]
    res['proved'] += len(out) - len(bad)
    if bad:
        res['candidates'].append({'key': 'hseed:' + c05.rule_class(plain) + ':w%d' % G.width(plain) + ('+segm' if plain != shape else ''),
                                  'desc': '%s: %s vs %s depending on string hashes (%s / %s)' % (name, first[2], bad[0][2], first[3], bad[0][3]),
                                  'data': {'shape': shape, 'kind': 'hseed', 'nconst': nconst, 'consts': {}}})
    else:
        res['nontrivial'] += 1
        if len(res['samples']) < 3:
            res['samples'].append({'shape': name, 'kind': 'hseed', 'paths': len(rs), 'verdict': 'one result on %d path(s) over the string-hash variables' % len(out)})


def _ctx_table():
    return {
        'addr': lambda e, n: X.ExprMem(e, 32),
        'segm': lambda e, n: X.ExprMem(X.ExprId('p', 32), 32, e),
        'cond': lambda e, n: X.ExprCond(e, X.ExprId('a', n), X.ExprId('b', n)),
        'slice': lambda e, n: X.ExprSlice(e, 0, 8),
        'sub': lambda e, n: X.ExprOp('-', X.ExprId('zz', n), e),
        'compose': lambda e, n: X.ExprCompose([(X.ExprSlice(e, 0, 16), 0, 16), (X.ExprId('hh', 16), 16, 32)]),
    }


CONTEXTS = ('addr', 'segm', 'cond', 'slice', 'sub', 'compose')


def wrap(ctx, e):
    if not ctx:
        return e
    return _ctx_table()[ctx](e, e.get_size())


def merge_shapes():
    """concatenations in which adjacent slices of one source merge (into a partial or a full-width slice, itself rewritable) next
    to another component: the output of one rule is input to another"""
    out = []
    for wa, total in ((16, 32), (8, 16), (32, 64), (16, 24), (8, 32)):
        rest = total - wa
        if rest not in (8, 16, 32):
            continue
        A = ('id', 'A', wa)
        others = [('id', 'B', rest), ('int', 0, rest), ('cond', ('id', 'c', rest), ('id', 'B', rest), ('int', 0, rest)), ('op', '+', (('id', 'B', rest), ('int', 0, rest)))]
        cuts_list = [[0, wa // 2, wa], [0, wa // 4, wa // 2, wa], [0, wa // 2]] if wa >= 8 else [[0, wa]]
        for cuts in cuts_list:
            for other in others:
                lo_first = tuple((('slice', A, cuts[i], cuts[i + 1]), cuts[i], cuts[i + 1]) for i in range(len(cuts) - 1))
                if cuts[-1] == wa:
                    out.append(('compose', lo_first + ((other, wa, total),)))
                    hi = tuple((('slice', A, cuts[i], cuts[i + 1]), rest + cuts[i], rest + cuts[i + 1]) for i in range(len(cuts) - 1))
                    out.append(('compose', ((other, 0, rest),) + hi))
                else:
                    # partial tiling: the merged slice stays a proper slice
                    out.append(('compose', lo_first + ((('id', 'D', total - cuts[-1]), cuts[-1], total),)))
    return [x for x in out if all(sz in (1, 8, 16, 32, 64) for _, sz in G.ints_of(x))]


def lifted_jobs(tier, seed):
    """(i) on lifted semantics: the source expressions the real lifter builds for integer-core instructions decoded from
    symbolic bytes (immediates / displacements symbolic)"""
    from vf.x86 import explore as E
    from vf.x86spec import sem as SPEC
    if E.A is None:
        common.env_setup()
        E.worker_init()
    out = []
    for ej in E.make_jobs(tier, seed, prefix_sets=[()] if tier == 'quick' else [(), (0x66,)], sib='min', per_signature=(tier == 'quick')):
        prefixes, opc, last, sibmode, rowname = ej
        node = E.A.x86mndb.db_mnemo
        for b in opc:
            node = node[b]
        ms = [x for x in node if x is not None] if last is None else [node[last[0]]]
        if any(isinstance(x, E.A.mnemonic) and SPEC.in_core(x.name) for x in ms):
            out.append(('lifted', tier, ej))
    return out


def _lifted(ejob, res, tier):
    from vf.x86 import explore as E
    from vf.checks import c11
    import miasmx.arch.ia32_sem as SEM
    import miasmx.tools.emul_helper as EH
    c11.SEM, c11.X = SEM, X
    prefixes, opc, last, sibmode, rowname = ejob
    title = 'lifted %s|%s%s %s' % (' '.join('%02x' % p for p in prefixes), ' '.join('%02x' % b for b in opc), '' if last is None else ' {%02x..}' % last[0], rowname)
    seen = set()

    def on_path(eng, d):
        if d.kind != 'ok':
            return ('SKIP',)
        i = d.instr
        name = i.m.name
        if name not in SEM.mnemo_func:
            return ('SKIP',)
        c11.reset_singletons()
        try:
            affs = EH.get_instr_expr(i, X.ExprInt(M.uint32(i.l)), [])
        except PathAbort:
            raise
        except Exception:
            return ('SKIP',)            # C11's subject
        n = 0
        for k, a in enumerate(affs):
            if not isinstance(a, X.ExprAff):
                continue
            try:
                r = H.expr_simp(a.src)
                r2 = H.expr_simp(r.copy())
            except PathAbort:
                raise
            except Exception:
                continue                # C05's subject
            n += 1
            eq = struct_eq(r2, r)
            if eq is True:
                continue
            m = None
            if eq is not False:
                st, m = eng.find(z3.Not(eq))
                if st == 'unsat':
                    continue
                if st != 'sat':
                    return ('ABORT', 'unknown')
            return ('CEX', 'idem-lifted:%s:%s' % (name, a.dst if isinstance(a.dst, X.ExprId) else 'mem'),
                    '%s: simp(simp(e)) != simp(e) for the source of %s' % (name, a.dst), E.witness_bytes(eng, d, m)[:i.l], k)
        return ('OK', n)
    eng, rs = E.explore(ejob, on_path, max_paths=20000, max_seconds=300 if tier == 'quick' else 900)
    res['paths'] += eng.stats['paths']
    res['queries'] += eng.stats['queries']
    res['solver_s'] += eng.stats['solver_s']
    for u in eng.unexplored:
        res['inconclusive'].append('%s: %s' % (title, u))
    ok = 0
    for r in rs:
        if r[0] == 'OK':
            ok += 1
            res['obligations'] += r[1]
            res['proved'] += r[1]
        elif r[0] == 'CEX':
            res['obligations'] += 1
            if r[1] not in seen:
                seen.add(r[1])
                res['candidates'].append({'key': r[1], 'desc': r[2] + ' e.g. ' + ' '.join('%02x' % b for b in r[3]), 'data': {'kind': 'lifted', 'bytes': list(r[3]), 'idx': r[4]}})
        elif r[0] == 'SKIP':
            pass
        else:
            res['inconclusive'].append('%s: %s' % (title, r[1] if len(r) > 1 else r[0]))
    if ok:
        res['nontrivial'] += 1
        if len(res['samples']) < 1:
            res['samples'].append({'row': title, 'paths': len(rs), 'verdict': 'expr_simp is idempotent on every lifted source expression of %d path(s), immediates symbolic' % ok})


def _renumber_pair(base, rest):
    """give each constant leaf of base an index; variants reuse the same leaves (same objects by position)"""
    return base, rest


def run_job(job):
    _, tier, items = job
    res = {'paths': 0, 'queries': 0, 'solver_s': 0.0, 'obligations': 0, 'proved': 0, 'candidates': [],
           'inconclusive': [], 'samples': [], 'programs': 0, 'nontrivial': 0}
    if job[0] == 'lifted':
        res['programs'] = 1
        _lifted(items, res, tier)
        return res
    for kind, base, rest in items:
        res['programs'] += 1
        if kind == 'idem':
            _idem(base, res, tier)
        elif kind == 'hseed':
            _hseed(base, res, tier)
        else:
            _perm(base, rest, res, tier, kind.partition('@')[2])
    return res


def _consts_for(shape):
    return c05.sym_consts(shape)


def _idem(shape, res, tier):
    eng = Engine(width=c05.shape_width(shape), timeout_ms=20000, max_paths=300, max_seconds=60, path_seconds=20)
    name = G.show(shape)

    def fn(eng):
        consts = _consts_for(shape)
        e = G.build(shape, consts, X, M)
        try:
            r = H.expr_simp(e)
        except PathAbort:
            raise
        except Exception:
            return ('SKIP',)          # C05's business
        r2 = H.expr_simp(r.copy())
        eq = struct_eq(r2, r)
        if eq is True:
            return ('OK',)
        if eq is False:
            return ('CEX', 'idem', eng.model_inputs(eng.witness()), str(r), str(r2))
        st, m = eng.find(z3.Not(eq))
        if st == 'unsat':
            return ('OK',)
        if st == 'sat':
            return ('CEX', 'idem', eng.model_inputs(m), str(r), str(r2))
        return ('UNKNOWN',)
    _collect(eng, fn, res, name, {'shape': shape, 'kind': 'idem'}, 'idem:' + c05.rule_class(shape) + ':w%d' % G.width(shape))


def _perm(base, rest, res, tier, ctx=''):
    # constants: each 'int' leaf in base keeps index by its *operand identity*; since variants permute the
    # same operand tuples, renumbering each variant independently would decouple them.  We number leaves
    # of the base by operand position and carry the numbering through the permutation.
    eng = Engine(width=c05.shape_width(base), timeout_ms=20000, max_paths=600, max_seconds=90, path_seconds=20)
    name = G.show(base)
    nb, nrest = number_operands(base, rest)

    def fn(eng):
        consts = _consts_for(nb)
        e = wrap(ctx, G.build(nb, consts, X, M))
        try:
            r = H.expr_simp(e)
        except PathAbort:
            raise
        except Exception:
            return ('SKIP',)
        for v in nrest:
            e2 = wrap(ctx, G.build(v, consts, X, M))
            try:
                r2 = H.expr_simp(e2)
            except PathAbort:
                raise
            except Exception as ex:
                return ('CEX', 'perm-exc', eng.model_inputs(eng.witness()), str(r), '%s raises %s' % (G.show(v), type(ex).__name__), v)
            eq = struct_eq(r2, r)
            if eq is True:
                continue
            if eq is False:
                return ('CEX', 'perm', eng.model_inputs(eng.witness()), str(r), str(r2), v)
            st, m = eng.find(z3.Not(eq))
            if st == 'sat':
                return ('CEX', 'perm', eng.model_inputs(m), str(r), str(r2), v)
            if st != 'unsat':
                return ('UNKNOWN',)
        return ('OK',)
    _collect(eng, fn, res, name + (' in context ' + ctx if ctx else ''), {'shape': nb, 'kind': 'perm', 'ctx': ctx},
             'perm:' + c05.rule_class(nb) + ':w%d' % G.width(nb) + ('@' + ctx if ctx else ''))


def number_operands(base, rest):
    """number the constant leaves per top-level operand so that permuted variants share constants"""
    op = base[1]
    operands = list(base[2])
    numbered = []
    cnt = [0]

    def num(s):
        k = s[0]
        if k == 'int':
            cnt[0] += 1
            return ('int', cnt[0] - 1, s[2])
        if k in ('id', 'cint'):
            return s
        if k == 'mem':
            return ('mem', num(s[1]), s[2])
        if k == 'op':
            return ('op', s[1], tuple(num(x) for x in s[2]))
        if k == 'cond':
            return ('cond', num(s[1]), num(s[2]), num(s[3]))
        if k == 'slice':
            return ('slice', num(s[1]), s[2], s[3])
        return s
    # operands may repeat (same shape twice): number each occurrence separately, remember by position
    occ = {}
    nops = []
    for o in operands:
        no = num(o)
        occ.setdefault(o, []).append(no)
        nops.append(no)
    nb = ('op', op, tuple(nops))

    def subst(s, avail):
        # s is built from the original operand shapes: replace each maximal occurrence of an operand
        if s in avail and avail[s]:
            return avail[s].pop(0)
        if s[0] == 'op' and s[1] == op:
            return ('op', op, tuple(subst(x, avail) for x in s[2]))
        return s
    nrest = []
    for v in rest:
        avail = {k: list(vs) for k, vs in occ.items()}
        nrest.append(subst(v, avail))
    return nb, nrest


def _collect(eng, fn, res, name, data, key):
    rs = eng.explore(fn)
    res['paths'] += eng.stats['paths']
    res['queries'] += eng.stats['queries']
    res['solver_s'] += eng.stats['solver_s']
    for u in eng.unexplored:
        res['inconclusive'].append('%s: %s' % (name, u))
    ok = 0
    for r in rs:
        if r[0] == 'OK':
            ok += 1
            res['obligations'] += 1
            res['proved'] += 1
        elif r[0] == 'CEX':
            res['obligations'] += 1
            d = dict(data)
            d['consts'] = {str(k): v for k, v in r[2].items()}
            if len(r) > 5:
                d['variant'] = r[5]
            res['candidates'].append({'key': key if r[1] in ('idem', 'perm') else key.replace('perm:', 'perm-exc:'),
                                      'desc': '%s: %s vs %s with %s' % (name, r[3], r[4], r[2]), 'data': d})
        elif r[0] == 'SKIP':
            pass
        elif r[0] == 'TIMEOUT':
            res['inconclusive'].append('%s: path timeout' % name)
        else:
            res['inconclusive'].append('%s: %s' % (name, r[1] if len(r) > 1 else r[0]))
    if ok:
        res['nontrivial'] += 1
        if len(res['samples']) < 2:
            res['samples'].append({'shape': name, 'kind': data['kind'], 'paths': len(rs), 'verdict': 'outputs structurally equal on %d path(s), all constants' % ok})


REPLAY = r'''
# replay of a C13 counterexample on the real expr_simp (exit 1 = property violated)
import sys
import miasmx.expression.expression as X
import miasmx.tools.modint as M
from miasmx.expression.expression_helper import expr_simp
from vf.gen import shapes as G
D = %(data)r
consts = {int(k[1:]): v for k, v in D['consts'].items()}
from vf.checks import c13
c13.X = X
ctx = D.get('ctx', '')
e = c13.wrap(ctx, G.build(D['shape'], consts, X, M))
bad = False
try:
    r = expr_simp(e)
    if D['kind'] == 'idem':
        r2 = expr_simp(r.copy())
        print('simp(e)        =', r); print('simp(simp(e))  =', r2)
        bad = not (r2 == r) or str(r2) != str(r)
    else:
        e2 = c13.wrap(ctx, G.build(D['variant'], consts, X, M))
        print('e  =', e); print('e2 =', e2)
        try:
            r2 = expr_simp(e2)
            print('simp(e)  =', r); print('simp(e2) =', r2)
            bad = not (r2 == r) or str(r2) != str(r)
        except Exception as ex:
            print('simp(e2) raises', type(ex).__name__, ex); bad = True
except Exception as ex:
    print('simp(e) raises', type(ex).__name__, ex)
print('C13 replay:', 'VIOLATED' if bad else 'holds')
sys.exit(1 if bad else 0)
'''


REPLAY_LIFTED = r'''
# replay of a C13 counterexample (idempotence of expr_simp on lifted semantics) on the real code (exit 1 = violated)
import sys
from miasmx.arch.ia32_arch import x86mnemo
import miasmx.tools.emul_helper as EH, miasmx.expression.expression as X, miasmx.tools.modint as M
from miasmx.expression.expression_helper import expr_simp
D = %(data)r
i = x86mnemo.dis(bytes(D['bytes']) + b'\x90' * 4)
a = EH.get_instr_expr(i, X.ExprInt(M.uint32(i.l)), [])[D['idx']]
r = expr_simp(a.src); r2 = expr_simp(r.copy())
print(str(i).strip(), ':', a.dst); print('simp(e)       =', r); print('simp(simp(e)) =', r2)
bad = not (r2 == r) or str(r2) != str(r)
print('C13 replay:', 'VIOLATED' if bad else 'holds')
sys.exit(1 if bad else 0)
'''


REPLAY_HSEED = r'''
# replay of a C13 counterexample (string-hash independence of expr_simp) on the real code: the expression is simplified in
# fresh interpreters under PYTHONHASHSEED 0..31; more than one rendering = violated (exit 1)
import os, subprocess, sys
D = %(data)r
if len(sys.argv) > 1 and sys.argv[1] == 'child':
    import miasmx.expression.expression as X
    import miasmx.tools.modint as M
    from miasmx.expression.expression_helper import expr_simp
    from vf.gen import shapes as G
    from vf.checks import c13
    c13.X = X; c13.M = M
    consts = dict((k, 3 + 2 * k) for k in range(D['nconst'] + 1))
    shape = D['shape']
    e = c13.hbuild(G.renumber(shape) if not c13._has_memseg(shape) else shape, consts)
    print(expr_simp(e))
    sys.exit(0)
outs = {}
for seed in range(32):
    env = dict(os.environ, PYTHONHASHSEED=str(seed))
    o = subprocess.run([sys.executable, os.path.abspath(__file__), 'child'], env=env, capture_output=True, text=True).stdout.strip().splitlines()
    outs.setdefault(o[-1] if o else '<no output>', []).append(seed)
for k, v in outs.items():
    print('seeds', v, '->', k)
bad = len(outs) > 1
print('C13 replay:', 'VIOLATED' if bad else 'holds')
sys.exit(1 if bad else 0)
'''


def make_replay(cnd):
    if cnd['data'].get('kind') == 'hseed':
        return REPLAY_HSEED % {'data': cnd['data']}
    if cnd['data'].get('kind') == 'lifted':
        return REPLAY_LIFTED % {'data': cnd['data']}
    return REPLAY % {'data': cnd['data']}


def main(argv=None):
    a = common.tier_seed(argv)
    t0 = time.time()
    js = jobs(a.tier, a.seed)
    if a.only:
        js = [(j[0], j[1], [it for it in j[2] if a.only in (it[0] + ' ' + G.show(_strip_memseg(it[1])))]) if j[0] == 'chunk' else j for j in js]
        js = [j for j in js if (j[2] if j[0] == 'chunk' else a.only in repr(j))]
    results, left = common.run_pool('vf.checks.c13', js, nproc=a.nproc, budget_s=1500 if a.tier == 'quick' else 5400)
    cov, cands, inconc, herr = c05.aggregate(results, left)
    cov['exhaustive'] = False
    cov['rule'] = ('a program = one shape (idempotence) or one base shape with its permuted / re-associated variants; '
                   'non-trivial = at least one path on which the outputs were proved structurally equal')
    cov['functions_encoded'] = ['miasmx.expression.expression_helper:expr_simp/_expr_simp_w/_expr_simp/merge_sliceto_slice',
                                'miasmx.expression.expression:canonize_expr_list/key_expr/key_expr_compose/copy/visit']
    cov['bounds'] = ('operands from a 10-element pool (ids, constants, negations, memory, shifts, cond), arity 2..4, '
                     'permutations x {flat, left-nested, right-nested, balanced}, also embedded in six contexts (memory address, segment selector, condition, slice, non-commutative operand, concatenation slot); ' +
                     ('sampled (seeded), widths 32 and 8' if a.tier == 'quick' else 'all arity-2/3 combinations at width 32, sampled elsewhere, widths 1..64') +
                     '; idempotence over the C05 shapes and over the source expressions of the lifted semantics of integer-core instructions decoded from symbolic bytes; string-hash independence: hash(str) symbolic in explicit hash() calls (set / dict iteration order not modelled)')
    if cov['proved'] == 0:
        herr.append('vacuous: nothing proved')
    assumptions = ['structural equality of outputs decided as a z3 formula over the symbolic constants', 'z3 5.1.0', 'SInt proxy',
                   'hash-seed clause: only explicit hash() calls reaching the result are modelled (one symbolic integer per string); iteration order of sets is not']
    return common.finish(PROP, a.tier, a.seed, 'model_checking', t0, cov, assumptions, cands, herr, inconc, make_replay)


if __name__ == '__main__':
    sys.exit(main())
