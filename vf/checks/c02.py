"""C02 / C03 - assembler candidates encode exactly the requested instruction; asm/dis round trip.

Real text lines go through the real public API (x86mnemo.asm) with every number SYMBOLIC (substituted
right after the real lexer).  Per path and per candidate b (a byte string whose imm/disp bytes are terms
over the line's numbers):
  C03 forward (solver): the real decoder accepts b and consumes exactly len(b) bytes, for all number values;
  C02 values (solver): every number of the line reappears in the decoded operands and every decoded number
      comes from the line: n == zext(field) or n == sext(field) (mod 2^32) for ALL values of the path
      - i.e. no silent truncation or sign change;
  C02 template (arbiter, witnesses): objdump reads b as ONE instruction of len(b) bytes whose canonical form
      equals the canonical form of the input line;
  C03 text (witnesses): asm(str(dis(b))) contains b.
"""
import random
import re
import sys
import time

import z3

from vf import common
from vf.symex import core, instr
from vf.symex.core import SInt, SBool, Engine, PathAbort, bvv
from vf.symex.instr import SBytes
from vf.x86 import explore as E
from vf.x86 import asmdrive as AD
from vf.oracles import objdump as OD
from vf.checks import c05, c10

PROP = 'C02'
CORE_MN = ['mov', 'add', 'adc', 'sub', 'sbb', 'cmp', 'and', 'or', 'xor', 'test', 'push', 'pop', 'lea', 'imul', 'shl', 'sar', 'rol', 'inc', 'neg',
           'movzx', 'movsx', 'xchg', 'jmp', 'call', 'je', 'ret', 'int', 'in', 'out', 'bt', 'shld', 'enter', 'fld', 'fadd', 'fstp', 'movd', 'movq',
           'movaps', 'pshufd', 'pinsrw', 'paddb', 'cmpxchg', 'setne', 'cmovb', 'loop', 'aam', 'les', 'mul', 'div', 'not']


def worker_init():
    AD.worker_init()


def line_numbers(i):
    from vf.checks import c01
    return c01.numeric_fields(i)


def check_line(entry, res, tier, which, att=False):
    name, tags, tmpl, k = entry
    title = '%s %r' % ('asm_att' if att else 'asm', tmpl)
    eng = Engine(width=72, timeout_ms=20000, max_paths=3000, max_seconds=120 if tier == 'quick' else 600)
    wits = []
    seen = set()

    def fn(eng):
        syms = [SInt.var('n%d' % j, 0, (1 << 32) - 1) for j in range(k)]
        try:
            cands = AD.asm(tmpl, syms, att=att)
        except PathAbort:
            raise
        except ValueError as ex:
            return ('REJECT',)
        except Exception as ex:
            return ('SKIP', 'assembler raises %s (C10)' % type(ex).__name__)
        if not isinstance(cands, list) or (cands and isinstance(cands[0], list)):
            return ('REJECT',)
        if not cands:
            return ('REJECT',)
        out = []
        for ci, b in enumerate(cands):
            sb = AD.as_sbytes(b)
            n = len(sb.items)
            # C03 forward: the decoder accepts the candidate and consumes all of it
            data = SBytes(list(sb.items) + [0x90] * 4)
            try:
                i = E.A.x86mnemo.dis(data)
            except PathAbort:
                raise
            except Exception as ex:
                return ('CEX', 'dis-raises:%s' % name, 'decoding candidate %d raises %s' % (ci, type(ex).__name__), eng.model_inputs(eng.witness()), ci)
            if i is None:
                return ('CEX', 'not-decodable:%s' % name, 'candidate %d is not accepted by the decoder' % ci, eng.model_inputs(eng.witness()), ci)
            if i.l != n:
                return ('CEX', 'length:%s' % name, 'candidate %d has %d bytes, the decoder consumes %d' % (ci, n, i.l), eng.model_inputs(eng.witness()), ci)
            # C02 values
            fields = [(lab, v) for lab, v in line_numbers(i)]
            fterms = []
            for lab, v in fields:
                w = v.size if hasattr(v, 'size') else 32
                t = z3.Extract(w - 1, 0, core.term_of(instr.sym_int(v)))
                fterms.append((lab, w, t))
            nterms = [z3.Extract(31, 0, s.t) for s in syms]
            used = [False] * len(syms)
            for lab, w, t in fterms:
                if z3.is_bv_value(z3.simplify(t)) and not syms:
                    continue
                ok = False
                zt = z3.ZeroExt(32 - w, t) if w < 32 else t
                st = z3.SignExt(32 - w, t) if w < 32 else t
                for j, nt in enumerate(nterms):
                    for neg in (False, True):
                        x = -nt if neg else nt
                        if eng.prove(z3.Or(x == zt, x == st)):
                            ok = True
                            used[j] = True
                            break
                    if ok:
                        break
                fws = []
                if not ok and not z3.is_bv_value(z3.simplify(t)):
                    # the decoder reports a zero-extended byte / word field as a plain integer: if the decoded value provably
                    # fits fw < w bits on the whole path, the field is fw bits wide and -3 / 253 (mod 2^fw) are one value
                    # (GNU as encodes 'btc eax, 4294967293' and 'in al, 4294967293' as fd too)
                    for fw in (8, 16):
                        if fw < w and eng.prove(z3.Extract(w - 1, fw, t) == 0):
                            fws.append(fw)
                            lo = z3.Extract(fw - 1, 0, t)
                            zt2, st2 = z3.ZeroExt(32 - fw, lo), z3.SignExt(32 - fw, lo)
                            for j, nt in enumerate(nterms):
                                if eng.prove(z3.Or(nt == zt2, nt == st2)) or eng.prove(z3.Or(-nt == zt2, -nt == st2)):
                                    ok = True
                                    used[j] = True
                                    break
                            break
                if not ok and not z3.is_bv_value(z3.simplify(t)):
                    alts = [(zt, st)]
                    for fw in fws:
                        lo = z3.Extract(fw - 1, 0, t)
                        alts.append((z3.ZeroExt(32 - fw, lo), z3.SignExt(32 - fw, lo)))
                    st1, m = eng.find(z3.And(*[z3.And(nt != a, nt != b_, -nt != a, -nt != b_) for nt in nterms for a, b_ in alts])) if nterms else ('sat', eng.witness())
                    return ('CEX', 'value:%s' % name, 'candidate %d: decoded %s is not one of the numbers of the line (truncated or sign-changed)' % (ci, lab),
                            eng.model_inputs(m if m is not None else eng.witness()), ci, {'fws': fws})
            for j, u in enumerate(used):
                if not u and eng.prove(nterms[j] == 0):
                    continue          # a zero displacement may be omitted from the encoding
                if not u and not _implicit_ok(name, tmpl):
                    return ('CEX', 'dropped:%s' % name, 'candidate %d: number {%d} of the line does not appear in the encoding' % (ci, j), eng.model_inputs(eng.witness()), ci)
            out.append(sb)
        # witnesses for the arbiter / text layer
        for m in _models(eng):
            vals = [m.eval(s.t, model_completion=True).as_long() for s in syms]
            for ci, sb in enumerate(out):
                bs = []
                for x in sb.items:
                    bs.append(m.eval(x.t, model_completion=True).as_long() & 0xFF if isinstance(x, SInt) else x)
                wits.append((tuple(vals), ci, tuple(bs)))
        return ('OK', len(out))
    rs = eng.explore(fn)
    res['paths'] += eng.stats['paths']
    res['queries'] += eng.stats['queries']
    res['solver_s'] += eng.stats['solver_s']
    for u in eng.unexplored:
        res['inconclusive'].append('%s: %s' % (title, u))
    ok = 0
    for r in rs:
        if r[0] == 'OK':
            ok += 1
            res['obligations'] += r[1]
            res['proved'] += r[1]
        elif r[0] == 'CEX':
            res['obligations'] += 1
            key = r[1] + ':' + ','.join(tags)
            prop = 'C03' if r[1].split(':')[0] in ('dis-raises', 'not-decodable', 'length') else 'C02'
            if key not in seen and prop == which:
                seen.add(key)
                res['candidates'].append({'key': key, 'desc': '%s: %s with %s' % (title, r[2], r[3]),
                                          'data': {'tmpl': tmpl, 'k': k, 'vals': [r[3].get('n%d' % j, 0) for j in range(k)], 'what': r[1].split(':')[0], 'ci': r[4], 'att': att,
                                                   'fws': (r[5] if len(r) > 5 else {}).get('fws', [])}})
        elif r[0] in ('REJECT', 'SKIP'):
            pass
        else:
            res['inconclusive'].append('%s: %s' % (title, r[1] if len(r) > 1 else r[0]))
    # arbiter + text layer at witnesses
    uniq = list(dict.fromkeys(wits))[:60]
    if uniq:
        dis = OD.disassemble([bytes(w[2]) for w in uniq])
        from vf.oracles import gas
        refs = gas.reference([tmpl.format(*w[0]) for w in uniq], att=att) if which == 'C02' else [True] * len(uniq)
        for slot, ((vals, ci, bs), od) in enumerate(zip(uniq, dis)):
            res['witnesses'] = res.get('witnesses', 0) + 1
            line = tmpl.format(*vals)
            if refs[slot] is None:
                res['wit_invalid_for_gas'] = res.get('wit_invalid_for_gas', 0) + 1
                continue
            if which == 'C02':
                bad = template_check(refs[slot], bytes(bs), od, addr=slot * OD.SLOT, refaddr=slot * gas.SLOT, line_mn=None if att else name)
                if bad:
                    key = '%s:%s:%s' % (bad[0], name, ','.join(tags))
                    if key not in seen:
                        seen.add(key)
                        res['candidates'].append({'key': key, 'desc': '%s -> %s: %s' % (line, bytes(bs).hex(), bad[1]),
                                                  'data': {'tmpl': tmpl, 'k': k, 'vals': list(vals), 'what': 'template', 'ci': ci, 'att': att}})
                else:
                    res['wit_agree'] = res.get('wit_agree', 0) + 1
            elif att:
                pass
            else:
                bad = text_roundtrip(bytes(bs))
                if bad:
                    key = '%s:%s:%s' % (bad[0], name, ','.join(tags))
                    if key not in seen:
                        seen.add(key)
                        res['candidates'].append({'key': key, 'desc': '%s -> %s: %s' % (line, bytes(bs).hex(), bad[1]),
                                                  'data': {'tmpl': tmpl, 'k': k, 'vals': list(vals), 'what': 'text', 'ci': ci}})
                else:
                    res['wit_agree'] = res.get('wit_agree', 0) + 1
    if ok:
        res['nontrivial'] += 1
        if len(res['samples']) < 2:
            res['samples'].append({'line': tmpl, 'paths': len(rs), 'verdict': 'every candidate decodes to its full length and carries exactly the numbers of the line on %d path(s)' % ok})


ATT_MN = [('mov', 'lwb'), ('add', 'lwb'), ('sub', 'l'), ('cmp', 'lb'), ('and', 'lw'), ('or', 'l'), ('xor', 'lb'), ('test', 'lb'), ('adc', 'l'), ('sbb', 'l')]


def att_lines(tier):
    """AT&T line classes (name, tags, template, k): two-operand integer forms x operand shapes, plus one-operand / special forms"""
    regs = {'l': ['%eax', '%ebx'], 'w': ['%cx'], 'b': ['%cl', '%ah']}
    mems = ['{N}(%ebx)', '(%ebp)', '{N}(%ebx,%esi,4)', '{N}(,%esi,4)', '{N}', '-{N}(%ebx)', '(%ebx,%ebx,2)', '{N}(%esp)'] if tier == 'thorough' else \
        ['{N}(%ebx)', '{N}(%ebx,%esi,4)', '{N}(,%esi,4)', '-{N}(%ebx)', '{N}', '{N}(%ebx,%ebx,2)']
    out = []
    mns = ATT_MN if tier == 'thorough' else ATT_MN[:2] + ATT_MN[3:4] + ATT_MN[7:8]
    for mn, sufs in mns:
        for sf in sufs:
            r = regs[sf][0]
            combos = [('imm,reg', '${N}, %s' % r), ('reg,reg', '%s, %s' % (regs[sf][-1], r))]
            for m in mems:
                tag = m.replace('{N}', 'N')
                combos += [('imm,m:' + tag, '${N}, %s' % m), ('reg,m:' + tag, '%s, %s' % (r, m)), ('m:' + tag + ',reg', '%s, %s' % (m, r))]
            for tag, ops in combos:
                if mn == 'test' and tag.startswith('m:'):
                    continue
                tmpl, k = AD.fill('%s%s %s' % (mn, sf, ops))
                out.append((mn + sf, (tag,), tmpl, k))
    for name, ops in (('leal', '{N}(%ebx,%esi,2), %eax'), ('leal', '{N}(,%esi,8), %ecx'), ('pushl', '${N}'), ('pushl', '{N}(%ebx)'), ('pushw', '${N}'), ('popl', '{N}(%ebp)'),
                      ('incl', '{N}(%ebx)'), ('negl', '%eax'), ('shll', '${N}, %eax'), ('sarl', '${N}, {N}(%ebx)'), ('imull', '${N}, %ebx, %eax'), ('imull', '{N}(%ebx), %eax'),
                      ('movzbl', '{N}(%ebx), %eax'), ('movsbl', '%cl, %eax'), ('movzwl', '{N}(%ebx,%esi,2), %eax'), ('xchgl', '%eax, {N}(%ebx)'), ('btl', '${N}, %eax'),
                      ('jmp', '*{N}(%ebx)'), ('call', '*%eax'), ('flds', '{N}(%ebx)'), ('fadds', '{N}(%ebx)'), ('fstpl', '{N}(%esp)'), ('fsub', '%st(1), %st'),
                      ('ret', '${N}'), ('int', '${N}'), ('in', '${N}, %al'), ('out', '%al, ${N}'), ('enter', '${N}, ${N}'), ('movl', '%eax, %es:{N}(%edi)'),
                      ('movq', '{N}(%eax), %mm1'), ('movd', '%eax, %xmm2'), ('paddb', '{N}(%ebx), %mm1'), ('movaps', '%xmm1, {N}(%esp)'), ('shldl', '${N}, %ebx, %eax'),
                      ('cmpxchgl', '%ecx, {N}(%ebx)'), ('setne', '{N}(%ebx)'), ('cmovbl', '{N}(%ebx), %eax'), ('mull', '{N}(%ebx)'), ('divb', '%cl'), ('notl', '{N}(%ebx)')):
        tmpl, k = AD.fill('%s %s' % (name, ops))
        out.append((name, (ops.replace('{N}', 'N'),), tmpl, k))
    return out


def att_valid(entries, probe_values=(5, 0x1234)):
    """keep the AT&T lines both assemblers accept (validity predicate of the property's quantifier)"""
    from vf.oracles import gas
    keep = []
    for e in entries:
        try:
            r = E.A.x86mnemo.asm_att(e[2].format(*[probe_values[i % 2] for i in range(e[3])]))
        except Exception:
            continue
        if r:
            keep.append(e)
    ok = gas.valid_lines([e[2].format(*[probe_values[i % 2] for i in range(e[3])]) for e in keep], att=True)
    return [e for i, e in enumerate(keep) if i in ok]


STRING_MN = set(st + sf for st in ('movs', 'cmps', 'stos', 'lods', 'scas', 'ins', 'outs') for sf in 'bwd')


def _implicit_ok(name, tmpl):
    # 'movsb eax, BYTE PTR [...]' : GNU as reads the AT&T alias of movsx, Intel assemblers the string instruction with
    # explicit operands: what such a line denotes is assembler-specific, so it is outside the quantifier
    return name in STRING_MN


def _models(eng):
    """the path model plus models pushing each number to its extremes (deterministic order)"""
    out = [eng.witness()]
    for name in sorted(eng.inputs):
        t = eng.inputs[name]
        for want_max in (False, True):
            eng.s.push()
            try:
                okb = True
                for b in range(31, -1, -1):
                    bit = z3.Extract(b, b, t)
                    want = 1 if want_max else 0
                    r = eng._check(bit == want)
                    if r == 'sat':
                        eng.s.add(bit == want)
                    elif r == 'unsat':
                        eng.s.add(bit == 1 - want)
                    else:
                        okb = False
                        break
                if okb and eng._check() == 'sat':
                    out.append(eng.s.model())
            finally:
                eng.s.pop()
    return out


def template_check(ref, b, od, addr=0, refaddr=0, line_mn=None):
    """objdump must read candidate b as one instruction of len(b) bytes: the instruction GNU as assembles the line to
    (read back by the same objdump), possibly in another encoding form"""
    if od is None:
        return ('objdump-rejects', 'objdump does not decode the candidate')
    olen, otxt = od
    o16 = (b[:1] == b'\x66' or b[1:2] == b'\x66')
    try:
        co = OD.canon(otxt, 'objdump', addr=addr, length=olen, opsize16=o16)
    except OD.Unparsed as ex:
        if str(ex) == 'bad':
            return ('objdump-rejects', 'objdump prints %r' % otxt)
        return None
    if olen != len(b):
        return ('template-length', 'objdump reads %d of %d bytes (%s)' % (olen, len(b), otxt))
    rlen, rtxt = ref
    try:
        cl = OD.canon(rtxt, 'objdump', addr=refaddr, length=rlen, opsize16=o16)
    except OD.Unparsed:
        return None
    # outside the quantifier: GNU as re-interpreted the mnemonic of the line (e.g. 'movd eax, eax' -> mov), and
    # direct relative branches (miasmX's operand is the raw displacement, GNU's an absolute target: a convention)
    lm = OD.MN_ALIAS.get(line_mn, line_mn) if line_mn else None
    if lm is not None and lm != cl[1] and lm != cl[1].rstrip('wdlbq'):
        return None
    if cl[2] and cl[2][0][0] == 'imm' and (cl[1].startswith('j') or cl[1] in ('call', 'loop', 'loope', 'loopne', 'jecxz')):
        return None
    why = OD.same(cl, co)
    if why:
        return ('template-' + why.split()[0].rstrip(':'), '%s | GNU as: %s | candidate: %s' % (why, rtxt, otxt))
    return None


def text_roundtrip(b):
    try:
        i = E.A.x86mnemo.dis(b)
        txt = str(i)
    except Exception as ex:
        return None        # C10
    if i is None:
        return None
    try:
        back = E.A.x86mnemo.asm(txt)
    except Exception as ex:
        return ('reasm-raises', 're-assembling %r raises %s: %s' % (txt.strip(), type(ex).__name__, str(ex)[:50]))
    if not isinstance(back, list) or b not in [bytes(x) for x in back if not isinstance(x, list)]:
        return ('not-fixpoint', 're-assembling %r gives %s' % (txt.strip(), [bytes(x).hex() for x in back][:4] if isinstance(back, list) else back))
    return None


def jobs(tier, seed, which='C02'):
    if E.A is None:
        common.env_setup()
        AD.worker_init()
    rnd = random.Random(seed)
    names = AD.mnemonics()
    if tier == 'quick':
        rest = [n for n in names if n not in CORE_MN]
        rnd.shuffle(rest)
        alu = ['add', 'adc', 'sub', 'sbb', 'cmp', 'and', 'or', 'xor']     # one encoding family: 3 of 8 per quick run (all in thorough)
        drop = set(alu) - set(rnd.sample(alu, 3))
        names = [n for n in CORE_MN if n in names and n not in drop] + rest[:15]
    chunks = [names[i:i + 1] for i in range(0, len(names), 1)]
    out = [('asm', tier, ch, which) for ch in chunks]
    if which == 'C02':
        # AT&T lines through asm_att (same clauses; reference = GNU as in AT&T mode)
        al = att_lines(tier)
        out += [('asmatt', tier, al[i:i + 12], which) for i in range(0, len(al), 12)]
    if which == 'C03':
        # converse direction: decode (symbolic bytes) -> real Intel rendering in render mode -> real parser -> the original bytes
        # must be among the candidates for all byte values of the path (vf/checks/c09.py, Intel half)
        from vf.checks import c09
        out += c09.jobs(tier, seed, syntaxes=('intel',), nsample=40)
    return out


def run_job(job):
    res = {'paths': 0, 'queries': 0, 'solver_s': 0.0, 'obligations': 0, 'proved': 0, 'candidates': [],
           'inconclusive': [], 'samples': [], 'programs': 0, 'nontrivial': 0}
    if job[0] == 'rt':
        from vf.checks import c09
        res['programs'] = 1
        c09.run_rt(job, res, which='C03')
        for c in res['candidates']:
            c['key'] = 'conv:' + c['key']
        return res
    if job[0] == 'asmatt':
        _, tier, entries, which = job
        for e in att_valid(entries):
            res['programs'] += 1
            check_line(e, res, tier, which, att=True)
        return res
    _, tier, names, which = job
    shapes = AD.operand_shapes(tier)
    lines = AD.accepted_lines(names, shapes)
    # one line per (mnemonic, tag tuple) class
    seen = set()
    for e in lines:
        k = (e[0], e[1])
        if k in seen:
            continue
        seen.add(k)
        res['programs'] += 1
        check_line(e, res, tier, which)
    return res


REPLAY = r'''
# replay of a C02 / C03 counterexample on the real assembler, decoder and objdump (exit 1 = property violated)
import sys
from miasmx.arch.ia32_arch import x86mnemo
from vf.oracles import objdump as OD
from vf.checks import c02
from vf.x86 import explore as E
import miasmx.arch.ia32_arch as A, miasmx.arch.ia32_reg as R
E.A = A; E.R = R
D = %(data)r
line = D['tmpl'].format(*D['vals']); what = D['what']; bad = False
att = D.get('att', False)
cands = x86mnemo.asm_att(line) if att else x86mnemo.asm(line)
print(line, '->', [bytes(c).hex() for c in cands])
for ci, b in enumerate(cands):
    b = bytes(b)
    if what in ('dis-raises', 'not-decodable', 'length'):
        try:
            i = x86mnemo.dis(b + b'\x90' * 4)
            if i is None: bad = True; print('candidate', b.hex(), 'is not decodable')
            elif i.l != len(b): bad = True; print('candidate', b.hex(), 'decodes with length', i.l)
        except Exception as ex: bad = True; print('decoding', b.hex(), 'raises', type(ex).__name__, ex)
    elif what in ('value', 'dropped'):
        i = x86mnemo.dis(b + b'\x90' * 4)
        if i is None: continue
        from vf.checks import c01
        fs = [(int(v), getattr(v, 'size', 32)) for _, v in c01.numeric_fields(i)]
        nums = [n %% (1 << 32) for n in D['vals']]
        for v, w0 in fs:
            hit = False
            for w in [w0] + [fw for fw in D.get('fws', []) if fw < w0 and 0 <= v < (1 << fw)]:
                z = v %% (1 << w); s = z - (1 << w) if z >> (w - 1) else z
                if any(n in (z, s %% (1 << 32), (-z) %% (1 << 32), (-s) %% (1 << 32)) for n in nums): hit = True
            if not hit and nums:
                bad = True; print('candidate', b.hex(), 'carries %%#x, the line has %%s' %% (v, [hex(n) for n in nums]))
        if what == 'dropped':
            for n in nums:
                present = False
                for v, w in fs:
                    z = v %% (1 << w); sg = (z - (1 << w)) %% (1 << 32) if z >> (w - 1) else z
                    if n in (z, sg, (-z) %% (1 << 32), (-sg) %% (1 << 32)): present = True
                if not present and ci == D['ci']: bad = True; print('number %%#x of the line is not in candidate %%s' %% (n, b.hex()))
    elif what == 'template':
        from vf.oracles import gas
        ref = gas.reference([line], att=att)[0]
        if ref is None: print('GNU as rejects the line (or warns): outside the quantifier'); continue
        r = c02.template_check(ref, b, OD.disassemble([b])[0], line_mn=None if att else line.split()[0])
        if r and ci == D['ci']: bad = True; print(b.hex(), r)
    elif what == 'text':
        r = c02.text_roundtrip(b)
        if r and ci == D['ci']: bad = True; print(b.hex(), r)
print(%(prop)r, 'replay:', 'VIOLATED' if bad else 'holds')
sys.exit(1 if bad else 0)
'''


def make_replay(cnd, prop='C02'):
    if 'att' in cnd['data'] and 'bytes' in cnd['data']:
        from vf.checks import c09
        return c09.make_replay(cnd)
    return REPLAY % {'data': cnd['data'], 'prop': prop}


def main(argv=None, which='C02'):
    a = common.tier_seed(argv)
    t0 = time.time()
    js = jobs(a.tier, a.seed, which)
    if a.only:
        js = [j for j in js if a.only in repr(j)]
    results, left = common.run_pool('vf.checks.c02', js, nproc=a.nproc, budget_s=1800 if a.tier == 'quick' else 9000)
    cov, cands, inconc, herr = c05.aggregate(results, left)
    for k in ('witnesses', 'wit_agree'):
        cov[k] = sum(r.get(k, 0) for r in results if 'harness_error' not in r)
    cov['exhaustive'] = False
    cov['rule'] = 'a program = one accepted line class (mnemonic x operand-shape tags) with every number symbolic; non-trivial = at least one path on which all candidates were proved'
    cov['functions_encoded'] = ['ia32_arch:x86_mn._asm/parse_mnemo/normalize_args/asm_candidates/asm_all_candidate, check_imm_size/ad_to_generic/forge_opc', 'core.parse_ad (grammar actions, dict_add/sub/mul)',
                                'ply.lex / ply.yacc (real lexer and LALR engine on the real text)', 'ia32_arch:x86_mn._dis (decoding the candidates)']
    cov['bounds'] = ('%s mnemonics x 48 operand shapes (0-2 operands + four 3-operand forms), Intel syntax, plus AT&T line classes (10 two-operand mnemonics x size suffixes x operand shapes + 40 special forms) through asm_att in C02; every number token symbolic in [0, 2^32) (negative numbers through "-N" shapes); '
                     'template clause at <= 60 witnesses per line incl. every number pushed to its extremes' % ('~90 (core list + seeded sample)' if a.tier == 'quick' else 'all'))
    if which == 'C03':
        cov['functions_encoded'].append('converse: x86_mn._dis (symbolic bytes) -> x86_mn.__str__ in render mode -> x86_mn._asm (vf/x86/roundtrip.py)')
        cov['bounds'] += ('; converse direction: opcode rows x prefix sets (), (66)%s, thin ModRM slice, misses reported only for encodings GNU as reproduces from the rendering (canonical)'
                          % (' (fixed core list + 40 rows sampled by seed)' if a.tier == 'quick' else ', (67), all rows'))
    if cov['proved'] == 0:
        herr.append('vacuous: nothing proved')
    assumptions = ['digit-string to integer conversion in the lexer is not covered (numbers are substituted right after lexing)', 'objdump as arbiter of the template at witnesses', 'the decoder is validated by C01', 'z3 5.1.0']
    return common.finish(which, a.tier, a.seed, 'model_checking', t0, cov, assumptions, cands, herr, inconc, lambda c: make_replay(c, which))


if __name__ == '__main__':
    sys.exit(main())
