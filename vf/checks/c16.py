"""C16 - read sets and pattern matching are semantically exact.

Read sets (E1): for every free variable / memory cell of E1(e) that is not covered by
e.get_r(mem_read=True), the query "two valuations differing only there give different values" must be unsat.
Matching (E2): e := pattern[binding] with symbolic constants; MatchExpr must succeed and the returned
bindings substituted into the pattern must reproduce e (structural equality as an SMT formula); mutated
non-instances (operator, arity, one constant perturbed by a symbolic non-zero delta) must fail.
"""
import itertools
import random
import sys
import time

import z3

from vf import common, ir2smt
from vf.gen import shapes as G
from vf.symex import core, instr
from vf.symex.core import SInt, Engine, PathAbort
from vf.checks import c05, c13

PROP = 'C16'
CHUNK = 30


def worker_init():
    c13.worker_init()
    global X, H, M
    X, H, M = c05.X, c05.H, c05.M


# -------------------------------------------------------------------------------------------------
# read sets
# -------------------------------------------------------------------------------------------------
def rs_shapes(tier, seed):
    rnd = random.Random(seed)
    out = []
    for n in ([32, 8] if tier == 'quick' else [32, 8, 16, 64]):
        a, b, c = ('id', 'a', n), ('id', 'b', n), ('id', 'c', n)
        p, q = ('id', 'p', 32), ('id', 'q', 32)
        K = ('int', 0, n)
        mem = ('mem', p, n) if n >= 8 else a
        mem2 = ('mem', ('op', '+', (p, ('int', 1, 32))), n) if n >= 8 else b
        memm = ('mem', ('mem', q, 32), n) if n >= 8 else b
        segm = ('smem', p, n, ('id', 'ds', 16)) if n >= 8 else a
        segm2 = ('smem', ('op', '+', (p, q)), n, ('slice', ('id', 'sel', 32), 0, 16)) if n >= 8 else a
        L = [a, b, K, mem, mem2, memm, segm, segm2]
        sh = list(L)
        for op in G.BINARY:
            for x, y in itertools.product(L, repeat=2):
                sh.append(('op', op, (x, y)))
        for op in G.UNARY:
            for x in L:
                sh.append(('op', op, (x,)))
        for op in ('+', '^', '&'):
            sh.append(('op', op, (a, mem, segm)))
            sh.append(('op', op, (mem2, b, K, memm)))
        for x in L:
            sh.append(('cond', x, a, b))
            sh.append(('cond', c, x, mem))
            sh.append(('cond', c, a, x))
            if n >= 16:
                sh.append(('slice', x, 0, n // 2))
                sh.append(('slice', x, n // 2, n))
                sh.append(('compose', ((('slice', x, 0, n // 2), 0, n // 2), (('slice', c, n // 2, n), n // 2, n))))
                sh.append(('compose', ((('slice', c, 0, n // 2), 0, n // 2), (('slice', x, 0, n // 2), n // 2, n))))
        # slices over concatenations of 2-4 slots: windows inside one slot, across a cut, and covering whole inner slots; and the
        # other node kinds over a concatenation (every slot is a child of its own)
        if n == 32:
            x8, y8, z16, h16 = ('id', 'x', 8), ('id', 'y', 8), ('id', 'z', 16), ('id', 'h', 16)
            m8 = ('mem', p, 8)
            sm8 = ('smem', ('op', '+', (p, q)), 8, ('id', 'ds', 16))
            comps = [('compose', ((x8, 0, 8), (y8, 8, 16), (z16, 16, 32))), ('compose', ((x8, 0, 8), (m8, 8, 16), (z16, 16, 32))),
                     ('compose', ((h16, 0, 16), (sm8, 16, 24), (y8, 24, 32))), ('compose', ((x8, 0, 8), (y8, 8, 16), (m8, 16, 24), (('id', 'w', 8), 24, 32))),
                     ('compose', ((h16, 0, 16), (('mem', ('mem', q, 32), 16), 16, 32)))]
            for cp in comps:
                sh.append(cp)
                for lo, hi in ((0, 8), (4, 12), (4, 20), (8, 16), (8, 24), (12, 28), (0, 32), (16, 32), (2, 30)):
                    sh.append(('slice', cp, lo, hi))
                sh.append(('op', '+', (cp, a)))
                sh.append(('cond', cp, a, b))
                sh.append(('mem', cp, 8))
        # uninterpreted operator of the lifter
        sh.append(('op', 'MMX', (a, segm)))
        sh.append(('op', 'fadd', (mem, b)))
        if tier == 'quick' and n != 32:
            rnd.shuffle(sh)
            sh = sh[:250]
        out += [('rs', s) for s in sh]
        # assignments
        for dst in (a, mem, segm, ('slice', a, 0, n // 2) if n >= 16 else a):
            for src in (b, mem2, ('op', '+', (b, segm)), K):
                out.append(('aff', dst, src))
    return out


def build2(s, consts):
    """G.build extended with segmented memory ('smem', addr, size, segm-shape)"""
    def go(s):
        k = s[0]
        if k == 'smem':
            return X.ExprMem(go(s[1]), s[2], go(s[3]))
        if k == 'id':
            return X.ExprId(s[1], s[2])
        if k == 'int':
            return X.ExprInt({1: M.uint1, 8: M.uint8, 16: M.uint16, 32: M.uint32, 64: M.uint64}[s[2]](consts[s[1]]))
        if k == 'cint':
            return X.ExprInt({1: M.uint1, 8: M.uint8, 16: M.uint16, 32: M.uint32, 64: M.uint64}[s[2]](s[1]))
        if k == 'mem':
            return X.ExprMem(go(s[1]), s[2])
        if k == 'op':
            return X.ExprOp(s[1], *[go(x) for x in s[2]])
        if k == 'cond':
            return X.ExprCond(go(s[1]), go(s[2]), go(s[3]))
        if k == 'slice':
            return X.ExprSlice(go(s[1]), s[2], s[3])
        if k == 'compose':
            return X.ExprCompose([(go(x[0]), x[1], x[2]) for x in s[1]])
        raise ValueError(s)
    return go(s)


def show2(s):
    if s[0] == 'smem':
        return '%s:@%d[%s]' % (show2(s[3]), s[2], show2(s[1]))
    if s[0] in ('op',):
        if len(s[2]) == 1:
            return '(%s %s)' % (s[1], show2(s[2][0]))
        return '(' + (' %s ' % s[1]).join(show2(x) for x in s[2]) + ')'
    if s[0] == 'mem':
        return '@%d[%s]' % (s[2], show2(s[1]))
    if s[0] == 'cond':
        return '(%s ? %s : %s)' % tuple(show2(x) for x in s[1:])
    if s[0] == 'slice':
        return '%s[%d:%d]' % (show2(s[1]), s[2], s[3])
    if s[0] == 'compose':
        return '{' + ', '.join('%s@%d:%d' % (show2(x[0]), x[1], x[2]) for x in s[1]) + '}'
    return G.show(s)


def skel(s):
    if s[0] == 'smem':
        return 'seg@(%s)' % skel(s[1])
    if s[0] == 'mem':
        return '@(%s)' % skel(s[1])
    if s[0] == 'op':
        return '%s(%s)' % (s[1], ','.join(skel(x) for x in s[2]))
    if s[0] == 'cond':
        return '?(%s,%s,%s)' % tuple(skel(x) for x in s[1:])
    if s[0] == 'slice':
        return '[%s]' % skel(s[1])
    if s[0] == 'compose':
        return '{%s}' % ','.join(skel(x[0]) for x in s[1])
    return c05.rule_class(s)


def ints2(s, acc):
    if s[0] == 'int':
        if (s[1], s[2]) not in acc:
            acc.append((s[1], s[2]))
    elif s[0] == 'smem':
        ints2(s[1], acc)
        ints2(s[3], acc)
    elif s[0] == 'mem':
        ints2(s[1], acc)
    elif s[0] == 'op':
        for x in s[2]:
            ints2(x, acc)
    elif s[0] == 'cond':
        for x in s[1:]:
            ints2(x, acc)
    elif s[0] == 'slice':
        ints2(s[1], acc)
    elif s[0] == 'compose':
        for x in s[1]:
            ints2(x[0], acc)
    return acc


def free_vars(t):
    seen, out, stack = set(), [], [t]
    while stack:
        x = stack.pop()
        if x.get_id() in seen:
            continue
        seen.add(x.get_id())
        if z3.is_const(x) and x.decl().kind() == z3.Z3_OP_UNINTERPRETED:
            out.append(x)
        else:
            stack.extend(x.children())
    return out


def check_readset(item, res):
    kind = item[0]
    eng = Engine(width=136, timeout_ms=20000, max_paths=50, max_seconds=60)
    shape = item[1] if kind == 'rs' else ('op', '=', (item[1], item[2]))
    name = show2(item[1]) if kind == 'rs' else '%s = %s' % (show2(item[1]), show2(item[2]))

    def fn(eng):
        consts = {}
        for k, size in ints2(shape, []):
            consts[k] = SInt.var('k%d' % k, 0, (1 << size) - 1)
        c = ir2smt.Ctx(strict=False)
        if kind == 'aff':
            dst = build2(item[1], consts)
            src = build2(item[2], consts)
            aff = X.ExprAff(dst, src)
            # written set names the destination
            w = aff.get_w()
            want = dst.arg if isinstance(dst, X.ExprSlice) else dst
            okw = (len(w) == 1 and list(w)[0] == want)
            if not okw:
                return ('CEX', 'get_w', 'get_w() = %s' % sorted(str(x) for x in w), {})
            e = aff.src
            R = aff.get_r(mem_read=True)
            # memory destination: its address identifiers are inputs of the assignment as a whole
        else:
            e = build2(shape, consts)
            R = e.get_r(mem_read=True)
        t = ir2smt.tr(e, c, want=ir2smt.size_of(e))
        r_ids = set((x.name, x.size) for x in R if isinstance(x, X.ExprId))
        r_mems = [x for x in R if isinstance(x, X.ExprMem)]
        # identifiers
        for v in free_vars(t):
            nm = str(v)
            if v.sort().kind() != z3.Z3_BV_SORT:
                continue
            if nm.startswith('k') and nm[1:].isdigit():
                continue        # a symbolic constant of the harness
            base, _, sz = nm.rpartition(':')
            if (base, int(sz)) in r_ids:
                continue
            t2 = z3.substitute(t, (v, z3.BitVec('other_' + nm, v.size())))
            st, m = eng.find(t != t2)
            if st == 'sat':
                return ('CEX', 'omit-id:' + base, 'identifier %s influences the value but is not in get_r()' % base, eng.model_inputs(m))
            if st != 'unsat':
                return ('UNKNOWN', 'id ' + nm)
        # memory cells: every read E1 performed must be covered by an ExprMem of R (same address, same size)
        cov = []
        for mm in r_mems:
            cm = ir2smt.Ctx(strict=False)
            cm.ids = c.ids
            cm.mem = c.mem
            cm.segbase = c.segbase
            a = cm.fit(ir2smt.tr(mm.arg, cm), 32, 'address')
            if mm.segm is not None and isinstance(mm.segm, X.Expr):
                a = a + c.segbase(ir2smt._segsel(ir2smt.tr(mm.segm, cm), mm))
            cov.append((a, mm.size // 8))
        for (a, nb) in c.mem_reads:
            covered = False
            for (ra, rn) in cov:
                if rn >= nb and eng.prove(ra == a):
                    covered = True
                    break
            if covered:
                continue
            # does the cell really matter?
            mem2 = c.mem
            for i in range(nb):
                mem2 = z3.Store(mem2, a + i, z3.BitVec('otherbyte%d' % i, 8))
            t2 = z3.substitute(t, (c.mem0, mem2))
            st, m = eng.find(t != t2)
            if st == 'sat':
                return ('CEX', 'omit-mem', 'a %d-byte memory cell influences the value but is not in get_r(mem_read=True)' % nb, eng.model_inputs(m))
            if st != 'unsat':
                return ('UNKNOWN', 'mem')
        return ('OK',)
    rs = eng.explore(fn)
    _collect(eng, rs, res, name, {'kind': kind, 'item': item}, 'readset', skel(shape))


# -------------------------------------------------------------------------------------------------
# MatchExpr
# -------------------------------------------------------------------------------------------------
def match_cases(tier, seed):
    rnd = random.Random(seed)
    n = 32
    w1, w2, w3 = ('id', 'W1', n), ('id', 'W2', n), ('id', 'W3', n)
    a, b = ('id', 'a', n), ('id', 'b', n)
    K = ('int', 0, n)
    K1 = ('int', 1, n)
    pats = []
    for op in ['+', '*', '^', '&', '|', '-', '<<', '>>', 'a>>', '<<<', '>>>', '==']:
        pats += [('op', op, (w1, w2)), ('op', op, (w1, K)), ('op', op, (a, w1)), ('op', op, (w1, w1)),
                 ('op', op, (('op', '+', (w1, K)), w2))]
    for op in ['+', '^', '&']:
        pats += [('op', op, (w1, w2, w3)), ('op', op, (w1, a, w1)), ('op', op, (w1, K, w2))]
    pats += [('op', '-', (w1,)), ('op', 'parity', (w1,)), ('mem', w1, 32), ('mem', ('op', '+', (w1, K)), 32),
             ('mem', ('op', '+', (('op', '&', (w1, K)), w2)), 32), ('mem', w1, 8),
             ('slice', w1, 0, 8), ('slice', ('op', '+', (w1, w2)), 8, 16),
             ('cond', w1, w2, w3), ('cond', ('op', '+', (a, b)), w1, w2), ('cond', w1, K, K1), ('cond', w1, w2, w1), ('cond', a, w1, w2),
             ('cond', ('op', '==', (w1, K)), w2, w3),
             ('compose', ((('slice', w1, 0, 16), 0, 16), (('slice', w2, 16, 32), 16, 32))),
             ('compose', ((('slice', w1, 0, 16), 0, 16), (('slice', w1, 16, 32), 16, 32))),
             ('compose', ((('slice', a, 0, 16), 0, 16), (('slice', w1, 16, 32), 16, 32))),
             # whole wildcards as concatenation slots: only the slot boundaries tell instances from non-instances
             ('compose', ((('id', 'WA', 16), 0, 16), (('id', 'WB', 16), 16, 32))),
             ('compose', ((('id', 'WC', 8), 0, 8), (('id', 'WA', 16), 8, 24), (('id', 'WD', 8), 24, 32))),
             ('compose', ((('id', 'WA', 16), 0, 16), (('slice', w1, 16, 32), 16, 32))),
             ('compose', ((('id', 'WC', 8), 0, 8), (('slice', a, 8, 32), 8, 32))),
             # a wildcard occurring twice, at least once inside a compound sub-term
             ('op', '*', (('op', '+', (w1, b)), w1)), ('op', '^', (('mem', ('op', '+', (w1, K)), 32), w1)), ('op', '+', (('op', '-', (w1,)), ('op', '&', (w1, w2)))),
             ('cond', ('op', '==', (w1, K)), w1, w2), ('op', '-', (('slice', ('op', '+', (w1, w2)), 0, 32) if False else ('op', '<<', (w1, K)), ('op', '>>', (w1, K1)))),
             # constants where the surrounding node does not fix the width (absolute address, constant condition, slice of a constant)
             ('mem', K, 32), ('mem', ('op', '+', (K, w1)), 8), ('cond', K, w1, w2), ('cond', ('op', '&', (w1, K)), w2, K1),
             ('slice', K, 0, 8), ('slice', ('op', '^', (w1, K)), 0, 8), ('op', '+', (('mem', ('op', '+', (a, K)), 32), w1)),
             w1, K, a]
    binds = [a, b, K1, ('int', 2, n), ('op', '+', (a, ('int', 2, n))), ('mem', a, 32), ('op', '-', (b,)),
             ('cond', a, b, ('int', 2, n)), ('slice', ('id', 'z', 64), 0, 32)]
    cases = []
    for p in pats:
        for k in range(3 if tier == 'quick' else 9):
            bd = {'W1': binds[(k * 3) % len(binds)], 'W2': binds[(k * 3 + 1) % len(binds)], 'W3': binds[(k * 3 + 2) % len(binds)]}
            if tier == 'thorough':
                bd = {'W1': rnd.choice(binds), 'W2': rnd.choice(binds), 'W3': rnd.choice(binds)} if k >= 3 else bd
            h, q = ('id', 'h', 16), ('id', 'q', 8)
            narrow = [{'WA': h, 'WB': ('int', 3, 16), 'WC': q, 'WD': ('slice', b, 8, 16)},
                      {'WA': ('slice', a, 8, 24), 'WB': h, 'WC': ('int', 3, 8), 'WD': q},
                      {'WA': ('op', '+', (h, ('int', 3, 16))), 'WB': ('slice', a, 0, 16), 'WC': ('slice', h, 4, 12), 'WD': ('op', '^', (q, ('int', 3, 8)))}]
            bd.update(narrow[k % 3])
            cases.append(('match', p, bd))
    return cases


def subst_shape(p, bd):
    k = p[0]
    if k == 'id' and p[1] in bd:
        return bd[p[1]]
    if k in ('id', 'int', 'cint'):
        return p
    if k == 'mem':
        return ('mem', subst_shape(p[1], bd), p[2])
    if k == 'op':
        return ('op', p[1], tuple(subst_shape(x, bd) for x in p[2]))
    if k == 'cond':
        return ('cond',) + tuple(subst_shape(x, bd) for x in p[1:])
    if k == 'slice':
        return ('slice', subst_shape(p[1], bd), p[2], p[3])
    if k == 'compose':
        return ('compose', tuple((subst_shape(x[0], bd), x[1], x[2]) for x in p[1]))
    raise ValueError(p)


def wild_names(p, acc=None):
    if acc is None:
        acc = []
    if p[0] == 'id':
        if p[1].startswith('W') and p[1] not in acc:
            acc.append(p[1])
    elif p[0] == 'mem':
        wild_names(p[1], acc)
    elif p[0] == 'op':
        for x in p[2]:
            wild_names(x, acc)
    elif p[0] == 'cond':
        for x in p[1:]:
            wild_names(x, acc)
    elif p[0] == 'slice':
        wild_names(p[1], acc)
    elif p[0] == 'compose':
        for x in p[1]:
            wild_names(x[0], acc)
    return acc


def wild_sizes(p, acc=None):
    """width of every wildcard identifier of the pattern"""
    if acc is None:
        acc = {}
    if p[0] == 'id':
        if p[1].startswith('W'):
            acc[p[1]] = p[2]
    elif p[0] == 'mem':
        wild_sizes(p[1], acc)
    elif p[0] == 'op':
        for x in p[2]:
            wild_sizes(x, acc)
    elif p[0] == 'cond':
        for x in p[1:]:
            wild_sizes(x, acc)
    elif p[0] == 'slice':
        wild_sizes(p[1], acc)
    elif p[0] == 'compose':
        for x in p[1]:
            wild_sizes(x[0], acc)
    return acc


def subst_occ(p, name, values, ctr=None):
    """replace the k-th occurrence (left to right) of the identifier `name` in p by values[k] (other wildcards stay)"""
    if ctr is None:
        ctr = [0]
    k = p[0]
    if k == 'id':
        if p[1] == name:
            v = values[min(ctr[0], len(values) - 1)]
            ctr[0] += 1
            return v
        return p
    if k in ('int', 'cint'):
        return p
    if k == 'mem':
        return ('mem', subst_occ(p[1], name, values, ctr), p[2])
    if k == 'op':
        return ('op', p[1], tuple(subst_occ(x, name, values, ctr) for x in p[2]))
    if k == 'cond':
        return ('cond',) + tuple(subst_occ(x, name, values, ctr) for x in p[1:])
    if k == 'slice':
        return ('slice', subst_occ(p[1], name, values, ctr), p[2], p[3])
    if k == 'compose':
        return ('compose', tuple((subst_occ(x[0], name, values, ctr), x[1], x[2]) for x in p[1]))
    raise ValueError(p)


def count_occ(p, name):
    c = [0]
    subst_occ(p, name, [('id', name, 32)], c)
    return c[0]


def inconsistent(pat_n, bd):
    """non-instances: a wildcard that occurs twice gets two different values - incl. the wildcard identifier itself as the first
    value (the subject may mention the same name: matching W against W binds W := W, the second occurrence must then be W too)"""
    out = []
    for w in wild_names(pat_n):
        if count_occ(pat_n, w) < 2:
            continue
        others = {k: v for k, v in bd.items() if k != w}
        n = 32
        v_self, v_a, v_b = ('id', w, n), ('id', 'a', n), ('op', '+', (('id', 'b', n), ('cint', 1, n)))
        for tag, vals in (('self-then-other', [v_self, v_a]), ('other-then-self', [v_a, v_self]), ('two-values', [v_a, v_b]), ('self-then-compound', [v_self, v_b])):
            out.append(('inconsistent:' + tag, subst_shape(subst_occ(pat_n, w, vals), others)))
    return out


def mutants(p, e_shape):
    """non-instances of pattern p obtained from the instance e_shape (same overall shape class)"""
    out = []
    if e_shape[0] == 'op':
        op = e_shape[1]
        alt = '^' if op != '^' else '&'
        if len(e_shape[2]) == 1:
            alt = 'parity' if op == '-' else '-'
        out.append(('op-changed', ('op', alt, e_shape[2])))
        if len(e_shape[2]) >= 2 and op in G.ASSOC:
            out.append(('arity+1', ('op', op, e_shape[2] + (('id', 'extra', G.width(e_shape)),))))
            if len(e_shape[2]) >= 3:
                out.append(('arity-1', ('op', op, e_shape[2][:-1])))
    if e_shape[0] == 'mem' and e_shape[2] == 32:
        out.append(('size-changed', ('mem', e_shape[1], 16)))
    if e_shape[0] == 'slice':
        out.append(('bounds-changed', ('slice', e_shape[1], e_shape[2], e_shape[3] + 8)))
    if e_shape[0] == 'compose' and len(e_shape[1]) == 2:
        out.append(('arity+1', ('compose', e_shape[1] + ((('id', 'x8', 8), 32, 40),))))
    if e_shape[0] == 'compose':
        # same number of slots, same total width, one cut moved (every slot keeps one of its two boundaries) or all cuts moved
        cuts = [x[1] for x in e_shape[1]] + [e_shape[1][-1][2]]
        variants = []
        for i in range(1, len(cuts) - 1):
            for d in (4, -4):
                c2 = list(cuts)
                c2[i] += d
                if c2[i - 1] < c2[i] < c2[i + 1]:
                    variants.append(('cut%d%+d' % (i, d), c2))
        if len(cuts) > 3:
            c2 = [cuts[0]] + [c + 4 for c in cuts[1:-1]] + [cuts[-1]]
            if all(c2[j] < c2[j + 1] for j in range(len(c2) - 1)):
                variants.append(('all-cuts+4', c2))
        for tag, c2 in variants:
            out.append(('cut-changed:' + tag, ('compose', tuple((('id', 'u%d_%d' % (j, c2[j + 1] - c2[j]), c2[j + 1] - c2[j]), c2[j], c2[j + 1]) for j in range(len(c2) - 1)))))
    # a sub-term whose width the surrounding node does not fix (memory address, condition, slice argument) rebuilt at another
    # width: identifiers renamed, constants keep their (symbolic) value in the other class - equal numbers, different terms
    for tag, ms in width_changed(e_shape):
        out.append(('width-changed:' + tag, ms))
    return out


def retype(s, wf, wt):
    """the shape s (of width wf) rebuilt at width wt, or None where that is not expressible"""
    k = s[0]
    if G.width(s) != wf:
        return None
    if k == 'id':
        return ('id', '%s_%d' % (s[1], wt), wt)
    if k in ('int', 'cint'):
        return (k, s[1], wt)
    if k == 'mem':
        return ('mem', s[1], wt)
    if k == 'op':
        if s[1] in ('==', 'parity', '<<', '>>', 'a>>', '<<<', '>>>') and len(s[2]) == 2:
            a = retype(s[2][0], wf, wt)
            b = retype(s[2][1], G.width(s[2][1]), wt) if G.width(s[2][1]) == wf else s[2][1]
            return None if a is None or b is None else ('op', s[1], (a, b))
        xs = [retype(x, wf, wt) for x in s[2]]
        return None if any(x is None for x in xs) else ('op', s[1], tuple(xs))
    if k == 'cond':
        a, b = retype(s[2], wf, wt), retype(s[3], wf, wt)
        return None if a is None or b is None else ('cond', s[1], a, b)
    return None


def width_changed(e, path='', acc=None):
    if acc is None:
        acc = []
    k = e[0]
    def alt(sub, mk, where, need=0):
        wf = G.width(sub)
        for wt in (16, 64, 8):
            if wt == wf or wt < need:
                continue
            r = retype(sub, wf, wt)
            if r is not None and r != sub and G.ints_of(r):
                acc.append(('%s%s:%d->%d' % (path, where, wf, wt), mk(r)))
                break
    if k == 'mem':
        alt(e[1], lambda r: ('mem', r, e[2]), 'addr')
    elif k == 'cond':
        alt(e[1], lambda r: ('cond', r, e[2], e[3]), 'cond')
    elif k == 'slice':
        alt(e[1], lambda r: ('slice', r, e[2], e[3]), 'slicearg', need=e[3])
    # one level down (the node kinds that carry such a position inside an operation / condition arm)
    if not path:
        if k == 'op':
            for i, x in enumerate(e[2]):
                for tag, r in width_changed(x, 'arg%d.' % i, []):
                    acc.append((tag, ('op', e[1], e[2][:i] + (r,) + e[2][i + 1:])))
        elif k == 'cond':
            for i in (2, 3):
                for tag, r in width_changed(e[i], 'arm%d.' % i, []):
                    acc.append((tag, e[:i] + (r,) + e[i + 1:]))
    return acc


def _nb(r):
    """a symbolic truth value returned by the matcher is decided (forks) like any caller's `if` would"""
    if isinstance(r, core.SBool):
        return bool(r)
    return r


def check_match(item, res):
    _, pat, bd = item
    wn = wild_names(pat)
    bd = {k: v for k, v in bd.items() if k in wn}
    # constants of the pattern and of the bindings are numbered apart
    pat_n = G.renumber(pat)
    npc = len(G.ints_of(pat_n))

    def shift(s):
        k = s[0]
        if k == 'int':
            return ('int', s[1] + npc, s[2])
        if k in ('id', 'cint'):
            return s
        if k == 'mem':
            return ('mem', shift(s[1]), s[2])
        if k == 'op':
            return ('op', s[1], tuple(shift(x) for x in s[2]))
        if k == 'cond':
            return ('cond',) + tuple(shift(x) for x in s[1:])
        if k == 'slice':
            return ('slice', shift(s[1]), s[2], s[3])
        if k == 'compose':
            return ('compose', tuple((shift(x[0]), x[1], x[2]) for x in s[1]))
        return s
    bd = {k: shift(v) for k, v in bd.items()}
    e_shape = subst_shape(pat_n, bd)
    name = 'MatchExpr(%s, %s, %s)' % (G.show(e_shape), G.show(pat_n), wn)
    eng = Engine(width=72, timeout_ms=20000, max_paths=300, max_seconds=60)
    muts = mutants(pat_n, e_shape) + inconsistent(pat_n, bd)

    def fn(eng):
        consts = c05.sym_consts(('op', 'tuple', (pat_n, e_shape)))
        e = G.build(e_shape, consts, X, M)
        m = G.build(pat_n, consts, X, M)
        ws = wild_sizes(pat_n)
        tks = [X.ExprId(w, ws.get(w, 32)) for w in wn]
        try:
            r = _nb(X.MatchExpr(e, m, tks))
        except PathAbort:
            raise
        except Exception as ex:
            return ('CEX', 'exc:' + type(ex).__name__, 'raises %s' % ex, eng.model_inputs(eng.witness()))
        if r is False or (r is not True and not isinstance(r, dict)):
            return ('CEX', 'no-match', 'returned %r for an instance' % (r,), eng.model_inputs(eng.witness()))
        if r is True:
            r = {}
        # every wildcard of the pattern bound; substituting reproduces e
        for w in tks:
            if w not in r:
                return ('CEX', 'unbound', 'wildcard %s not bound' % w, eng.model_inputs(eng.witness()))
        back = m.replace_expr(dict(r))
        eq = c13.struct_eq(back, e)
        if eq is False:
            return ('CEX', 'wrong-binding', 'bindings do not reproduce the expression: %s' % back, eng.model_inputs(eng.witness()))
        if eq is not True:
            st, mdl = eng.find(z3.Not(eq))
            if st == 'sat':
                return ('CEX', 'wrong-binding', 'bindings do not reproduce the expression', eng.model_inputs(mdl))
            if st != 'unsat':
                return ('UNKNOWN', 'eq')
        # non-instances
        for tag, ms in muts:
            e2 = G.build(ms, consts, X, M)
            try:
                r2 = _nb(X.MatchExpr(e2, m, tks))
            except PathAbort:
                raise
            except Exception as ex:
                return ('CEX', 'exc-nonmatch:' + type(ex).__name__, '%s: raises %s' % (tag, ex), eng.model_inputs(eng.witness()))
            if r2 is not False:
                # is it really a non-instance?  (substituting the returned bindings must not reproduce e2)
                rr = {} if r2 is True else dict(r2)
                try:
                    back2 = m.replace_expr(rr)
                    eq2 = c13.struct_eq(back2, e2)
                except PathAbort:
                    raise
                except Exception:
                    eq2 = False      # the bindings do not even build an expression
                if eq2 is True:
                    continue
                if eq2 is not False:
                    st, mdl = eng.find(z3.Not(eq2))
                    if st == 'unsat':
                        continue
                return ('CEX', 'false-match:' + tag, 'matched a non-instance (%s): %s' % (tag, G.show(ms)), eng.model_inputs(eng.witness()))
        # constant perturbed by a symbolic non-zero delta at a non-wildcard position
        pk = [k for k, _ in G.ints_of(pat_n)]
        if pk:
            k0 = pk[0]
            size = dict(G.ints_of(pat_n))[k0]
            delta = SInt.var('delta', 1, (1 << size) - 1)
            consts2 = dict(consts)
            consts2[k0] = consts[k0] + delta          # reduced modulo 2^size by the constructor: differs for every delta
            e3 = G.build(e_shape, consts2, X, M)
            # the binding expressions do not contain k0 (numbered apart), so e3 differs from e exactly there
            try:
                r3 = _nb(X.MatchExpr(e3, m, tks))
            except PathAbort:
                raise
            except Exception as ex:
                return ('CEX', 'exc-nonmatch:' + type(ex).__name__, 'perturbed constant: raises %s' % ex, eng.model_inputs(eng.witness()))
            if r3 is not False:
                return ('CEX', 'false-match:const', 'matched although a pattern constant differs', eng.model_inputs(eng.witness()))
        return ('OK',)
    rs = eng.explore(fn)
    _collect(eng, rs, res, name, {'kind': 'match', 'pat': pat_n, 'e': e_shape, 'wild': wn, 'muts': muts}, 'match', c05.rule_class(pat_n).replace('v', 'x'))


def _collect(eng, rs, res, name, data, prefix, cls):
    res['paths'] += eng.stats['paths']
    res['queries'] += eng.stats['queries']
    res['solver_s'] += eng.stats['solver_s']
    for u in eng.unexplored:
        res['inconclusive'].append('%s: %s' % (name, u))
    ok = 0
    for r in rs:
        if r[0] == 'OK':
            ok += 1
            res['obligations'] += 1
            res['proved'] += 1
        elif r[0] == 'CEX':
            res['obligations'] += 1
            d = dict(data)
            d['consts'] = {str(k): v for k, v in r[3].items()}
            d['what'] = r[1]
            res['candidates'].append({'key': '%s:%s:%s' % (prefix, r[1], cls), 'desc': '%s: %s' % (name, r[2]), 'data': d})
        else:
            res['inconclusive'].append('%s: %s' % (name, r[1] if len(r) > 1 else r[0]))
    if ok:
        res['nontrivial'] += 1
        if len(res['samples']) < 2:
            res['samples'].append({'case': name, 'paths': len(rs), 'verdict': 'unsat / structurally equal on %d path(s)' % ok})


def jobs(tier, seed):
    items = rs_shapes(tier, seed) + match_cases(tier, seed)
    return [('chunk', tier, items[i:i + CHUNK]) for i in range(0, len(items), CHUNK)]


def run_job(job):
    _, tier, items = job
    res = {'paths': 0, 'queries': 0, 'solver_s': 0.0, 'obligations': 0, 'proved': 0, 'candidates': [],
           'inconclusive': [], 'samples': [], 'programs': 0, 'nontrivial': 0}
    for it in items:
        res['programs'] += 1
        if it[0] in ('rs', 'aff'):
            check_readset(it, res)
        else:
            check_match(it, res)
    return res


REPLAY = r'''
# replay of a C16 counterexample on the real code (exit 1 = property violated)
import sys
import z3
import miasmx.expression.expression as X
import miasmx.tools.modint as M
from vf import ir2smt
from vf.gen import shapes as G
from vf.checks import c16, c13, c05
c16.X = c13.X = c05.X = X; c16.M = c05.M = M
D = %(data)r
consts = {int(k[1:]): v for k, v in D['consts'].items() if k[0] == 'k'}
bad = False
if D['kind'] in ('rs', 'aff'):
    item = D['item']
    for k, size in c16.ints2(('op', '=', tuple(x for x in item[1:] if isinstance(x, tuple))), []):
        consts.setdefault(k, 0)
    if D['kind'] == 'aff':
        dst = c16.build2(item[1], consts); aff = X.ExprAff(dst, c16.build2(item[2], consts))
        e = aff.src; R = aff.get_r(mem_read=True)
        w = aff.get_w(); want = dst.arg if isinstance(dst, X.ExprSlice) else dst
        if D['what'] == 'get_w': bad = not (len(w) == 1 and list(w)[0] == want); print('get_w =', [str(x) for x in w])
    else:
        e = c16.build2(item[1], consts); R = e.get_r(mem_read=True)
    print('e =', e, ' get_r(mem_read=True) =', sorted(str(x) for x in R))
    if D['what'] != 'get_w':
        c = ir2smt.Ctx(strict=False); t = ir2smt.tr(e, c, want=32)
        ids = set((x.name, x.size) for x in R if isinstance(x, X.ExprId))
        s = z3.Solver()
        if D['what'].startswith('omit-id:'):
            nm = D['what'].split(':', 1)[1]
            for v in c16.free_vars(t):
                base, _, sz = str(v).rpartition(':')
                if base == nm and (base, int(sz)) not in ids:
                    t2 = z3.substitute(t, (v, z3.BitVec('other', v.size())))
                    s.push(); s.add(t != t2)
                    if s.check() == z3.sat: bad = True; print('two valuations differing only on', nm, 'give different values; it is not in get_r()')
                    s.pop()
        else:
            mems = [x for x in R if isinstance(x, X.ExprMem)]
            for (a, nb) in c.mem_reads:
                cov = False
                for mm in mems:
                    cm = ir2smt.Ctx(strict=False); cm.ids = c.ids; cm.mem = c.mem; cm.segbase = c.segbase
                    ra = cm.fit(ir2smt.tr(mm.arg, cm), 32, 'address')
                    if mm.segm is not None and isinstance(mm.segm, X.Expr): ra = ra + c.segbase(ir2smt._segsel(ir2smt.tr(mm.segm, cm), mm))
                    s.push(); s.add(ra != a); r = s.check(); s.pop()
                    if r == z3.unsat and mm.size // 8 >= nb: cov = True
                if not cov:
                    mem2 = c.mem
                    for i in range(nb): mem2 = z3.Store(mem2, a + i, z3.BitVec('ob%%d' %% i, 8))
                    t2 = z3.substitute(t, (c.mem0, mem2)); s.push(); s.add(t != t2)
                    if s.check() == z3.sat: bad = True; print('a memory cell read by the expression is not in get_r(mem_read=True)')
                    s.pop()
else:
    for k, size in G.ints_of(('op', 't', (D['pat'], D['e']))): consts.setdefault(k, 0)
    e = G.build(D['e'], consts, X, M); m = G.build(D['pat'], consts, X, M); ws = c16.wild_sizes(D['pat']); tks = [X.ExprId(w, ws.get(w, 32)) for w in D['wild']]
    what = D['what']
    print('e =', e, ' pattern =', m, ' wildcards =', D['wild'])
    try:
        if what.startswith('false-match:') or what.startswith('exc-nonmatch'):
            tag = what.split(':', 1)[1]
            if tag == 'const' or what.startswith('exc-nonmatch'):
                cands = []
                pk = [k for k, _ in G.ints_of(D['pat'])]
                if pk:
                    c2 = dict(consts); c2[pk[0]] = consts[pk[0]] + D['consts'].get('delta', 1); cands.append(G.build(D['e'], c2, X, M))
                cands += [G.build(ms, consts, X, M) for _, ms in D['muts']]
            else:
                cands = [G.build(ms, consts, X, M) for t_, ms in D['muts'] if t_ == tag]
            for e2 in cands:
                try:
                    r2 = X.MatchExpr(e2, m, tks)
                except Exception as ex:
                    print('non-instance', e2, 'raises', type(ex).__name__, ex); bad = True; continue
                if r2 is not False:
                    rr = {} if r2 is True else dict(r2)
                    if not (m.replace_expr(rr) == e2):
                        print('non-instance', e2, 'matched with', {str(k): str(v) for k, v in rr.items()}); bad = True
        else:
            r = X.MatchExpr(e, m, tks)
            print('result =', r if not isinstance(r, dict) else {str(k): str(v) for k, v in r.items()})
            if r is False or (r is not True and not isinstance(r, dict)): bad = True
            else:
                rr = {} if r is True else dict(r)
                if any(w not in rr for w in tks): bad = True
                elif not (m.replace_expr(rr) == e): bad = True
    except Exception as ex:
        print('raises', type(ex).__name__, ex); bad = True
print('C16 replay:', 'VIOLATED' if bad else 'holds')
sys.exit(1 if bad else 0)
'''


def make_replay(cnd):
    return REPLAY % {'data': cnd['data']}


def main(argv=None):
    a = common.tier_seed(argv)
    t0 = time.time()
    js = jobs(a.tier, a.seed)
    if a.only:
        js = [(k, t, [it for it in items if a.only in repr(it)]) for k, t, items in js]
        js = [j for j in js if j[2]]
    results, left = common.run_pool('vf.checks.c16', js, nproc=a.nproc, budget_s=1500 if a.tier == 'quick' else 5400)
    cov, cands, inconc, herr = c05.aggregate(results, left)
    cov['exhaustive'] = False
    cov['rule'] = 'a program = one expression/assignment shape (read sets) or one (pattern, wildcards, binding) triple with its mutants; non-trivial = at least one path proved'
    cov['functions_encoded'] = ['miasmx.expression.expression:get_r/get_w of every node class', 'MatchExpr/test_set', 'replace_expr/visit']
    cov['bounds'] = 'depth <= 2 shapes over ids, constants, plain / nested / segmented memory; 60 patterns x 3 (quick) or 9 (thorough) bindings; widths 32, 8 (+16, 64 thorough)'
    if cov['proved'] == 0:
        herr.append('vacuous: nothing proved')
    assumptions = ['E1 meaning of the IR incl. segmented memory = address + uninterpreted segbase(selector)', 'z3 5.1.0', 'SInt proxy']
    return common.finish(PROP, a.tier, a.seed, 'model_checking', t0, cov, assumptions, cands, herr, inconc, make_replay)


if __name__ == '__main__':
    sys.exit(main())
