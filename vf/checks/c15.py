"""C15 - structural laws of IR nodes: equality, hashing, copy, visit, substitution, canonize.

Part A (E2, node fields symbolic): == is reflexive / symmetric / transitive, != is its negation,
        e == f => hash(e) == hash(f) (hash of an integer = uninterpreted function of its value).
Part B (E2): copy() == original and shares no node with it; visit(identity) == original.
Part C (E2 + E1, constants symbolic): e == f => same width and same value; canonize() preserves the value;
        replace_expr({s: r}) denotes substitution.
"""
import itertools
import random
import sys
import time

import z3

from vf import common, ir2smt
from vf.gen import shapes as G
from vf.symex import core, instr
from vf.symex.core import SInt, SBool, Engine, PathAbort
from vf.checks import c05, c13, c16

PROP = 'C15'
CHUNK = 12


def worker_init():
    c16.worker_init()
    global X, H, M
    X, H, M = c05.X, c05.H, c05.M


def w2(s):
    return s[2] if s[0] == 'smem' else (w2(s[2][0]) if s[0] == 'op' else (w2(s[2]) if s[0] == 'cond' else G.width(s)))


def consts2(shape):
    out = {}
    for k, size in c16.ints2(shape, []):
        out[k] = SInt.var('k%d' % k, 0, (1 << size) - 1)
    return out


# -------------------------------------------------------------------------------------------------
# Part A/B: field-symbolic node builders.  F(tag, lo, hi) yields the field value of the current copy.
# -------------------------------------------------------------------------------------------------
def _int(F, n=32, tag='k'):
    return X.ExprInt({8: M.uint8, 16: M.uint16, 32: M.uint32, 64: M.uint64, 1: M.uint1}[n](F(tag, 0, (1 << n) - 1)))


BUILDERS = {
    'int32': lambda F: _int(F, 32),
    'int8': lambda F: _int(F, 8),
    'id': lambda F: X.ExprId('a', F('size', 1, 128)),
    'mem': lambda F: X.ExprMem(X.ExprId('p', 32), F('msize', 8, 128)),
    'mem_seg': lambda F: X.ExprMem(X.ExprId('p', 32), F('msize', 8, 128), X.ExprId('ds', F('ssize', 1, 32))),
    'mem_nested': lambda F: X.ExprMem(X.ExprOp('+', X.ExprId('p', 32), _int(F, 32)), F('msize', 8, 128)),
    'slice': lambda F: X.ExprSlice(X.ExprId('a', 32), F('start', 0, 64), F('stop', 0, 64)),
    'slice_op': lambda F: X.ExprSlice(X.ExprOp('+', X.ExprId('a', 32), _int(F, 32)), F('start', 0, 64), 16),
    'compose': lambda F: X.ExprCompose([(X.ExprId('a', 16), F('s1', 0, 64), F('t1', 0, 64)), (X.ExprId('b', 16), F('s2', 0, 64), 32)]),
    'compose_int': lambda F: X.ExprCompose([(_int(F, 16, 'k1'), 0, 16), (X.ExprId('b', 16), 16, F('t2', 0, 64))]),
    'op_add': lambda F: X.ExprOp('+', X.ExprId('a', 32), _int(F, 32)),
    'op_add3': lambda F: X.ExprOp('+', X.ExprId('a', F('size', 1, 128)), _int(F, 32, 'k1'), _int(F, 32, 'k2')),
    'op_shift': lambda F: X.ExprOp('>>', X.ExprId('a', 32), _int(F, 8)),
    'op_neg': lambda F: X.ExprOp('-', _int(F, 32)),
    'cond': lambda F: X.ExprCond(X.ExprId('c', F('size', 1, 128)), _int(F, 32, 'k1'), _int(F, 32, 'k2')),
    'aff_id': lambda F: X.ExprAff(X.ExprId('d', F('size', 1, 128)), X.ExprOp('^', X.ExprId('a', 32), _int(F, 32))),
    'aff_mem': lambda F: X.ExprAff(X.ExprMem(X.ExprId('p', 32), F('msize', 8, 128)), _int(F, 32)),
    'aff_slice': lambda F: X.ExprAff(X.ExprSlice(X.ExprId('d', 32), 0, 8), _int(F, 8)),
}
# concrete structural perturbations (differ in exactly one non-numeric field)
PERTURB = {
    'id': [lambda F: X.ExprId('b', F('size', 1, 128)), lambda F: X.ExprId('a', F('size', 1, 128), is_reg=True)],
    'mem': [lambda F: X.ExprMem(X.ExprId('q', 32), F('msize', 8, 128)), lambda F: X.ExprMem(X.ExprId('p', 32), F('msize', 8, 128), X.ExprId('ds', 16))],
    'mem_seg': [lambda F: X.ExprMem(X.ExprId('p', 32), F('msize', 8, 128), X.ExprId('es', F('ssize', 1, 32))), lambda F: X.ExprMem(X.ExprId('p', 32), F('msize', 8, 128))],
    'op_add': [lambda F: X.ExprOp('^', X.ExprId('a', 32), _int(F, 32)), lambda F: X.ExprOp('+', X.ExprId('a', 32), _int(F, 32), _int(F, 32, 'kx')),
               lambda F: X.ExprOp('+', _int(F, 32), X.ExprId('a', 32))],
    'slice': [lambda F: X.ExprSlice(X.ExprId('b', 32), F('start', 0, 64), F('stop', 0, 64))],
    'compose': [lambda F: X.ExprCompose([(X.ExprId('a', 16), F('s1', 0, 64), F('t1', 0, 64))]),
                lambda F: X.ExprCompose([(X.ExprId('b', 16), F('s2', 0, 64), 32), (X.ExprId('a', 16), F('s1', 0, 64), F('t1', 0, 64))])],
    'cond': [lambda F: X.ExprCond(X.ExprId('c', F('size', 1, 128)), _int(F, 32, 'k2'), _int(F, 32, 'k1'))],
    'aff_id': [lambda F: X.ExprAff(X.ExprId('e', F('size', 1, 128)), X.ExprOp('^', X.ExprId('a', 32), _int(F, 32)))],
    'int32': [lambda F: _int(F, 8), lambda F: X.ExprId('a', 32)],
}


def mkF(prefix, share=None):
    """field provider; share = another provider's table whose values are reused (same fields)"""
    tab = {} if share is None else share

    def F(tag, lo, hi):
        k = tag
        if k not in tab:
            tab[k] = SInt.var('%s_%s' % (prefix, tag), lo, hi)
        return tab[k]
    F.tab = tab
    return F


def bval(x):
    """decide a (possibly symbolic) truth value the way a caller's `if` would"""
    return bool(x)


def nodes(e, acc=None):
    if acc is None:
        acc = []
    acc.append(e)
    if isinstance(e, X.ExprAff):
        nodes(e.dst, acc)
        nodes(e.src, acc)
    elif isinstance(e, X.ExprCond):
        nodes(e.cond, acc); nodes(e.src1, acc); nodes(e.src2, acc)
    elif isinstance(e, X.ExprMem):
        nodes(e.arg, acc)
        if isinstance(e.segm, X.Expr):
            nodes(e.segm, acc)
    elif isinstance(e, X.ExprOp):
        for a in e.args:
            nodes(a, acc)
    elif isinstance(e, X.ExprSlice):
        nodes(e.arg, acc)
    elif isinstance(e, X.ExprCompose):
        for a in e.args:
            nodes(a[0], acc)
    return acc


def hash_term(e):
    h = e.__hash__()
    return core.term_of(h) if isinstance(h, (SInt, int)) else core.term_of(int(h))


def law_job(kind, bname, other):
    """other: None (same builder, independent fields) or index into PERTURB[bname]"""
    eng = Engine(width=140, timeout_ms=20000, max_paths=3000, max_seconds=120)
    B = BUILDERS[bname]
    B2 = B if other is None else PERTURB[bname][other]
    name = '%s:%s%s' % (kind, bname, '' if other is None else '~%d' % other)

    def fn(eng):
        wit = lambda: eng.model_inputs(eng.witness())
        if kind == 'refl':
            Fe = mkF('e')
            e = B(Fe)
            e2 = B(mkF('e', share=Fe.tab))
            if not bval(e == e2):
                return ('CEX', 'refl', 'e == e is False', wit())
            if bval(e != e2):
                return ('CEX', 'ne', 'e != e is True', wit())
            instr.HASH_MODE[0] = 'exact'
            try:
                st, m = eng.find(hash_term(e) != hash_term(e2))
            finally:
                instr.HASH_MODE[0] = 'const'
            if st == 'sat':
                return ('CEX', 'hash', 'equal expressions hash differently', eng.model_inputs(m))
            return ('OK',) if st == 'unsat' else ('UNKNOWN', 'hash')
        if kind == 'sym':
            e, f = B(mkF('e')), B2(mkF('f'))
            r1 = bval(e == f)
            r2 = bval(f == e)
            if r1 != r2:
                return ('CEX', 'sym', '(e == f) is %s but (f == e) is %s' % (r1, r2), wit())
            r3 = bval(e != f)
            if r3 == r1:
                return ('CEX', 'ne', '(e != f) is %s and (e == f) is %s' % (r3, r1), wit())
            if r1:
                instr.HASH_MODE[0] = 'exact'
                try:
                    st, m = eng.find(hash_term(e) != hash_term(f))
                finally:
                    instr.HASH_MODE[0] = 'const'
                if st == 'sat':
                    return ('CEX', 'hash', 'e == f but hash(e) != hash(f)', eng.model_inputs(m))
                if st != 'unsat':
                    return ('UNKNOWN', 'hash')
            return ('OK',)
        if kind == 'trans':
            e, f, g = B(mkF('e')), B2(mkF('f')), B(mkF('g'))
            if bval(e == f) and bval(f == g):
                if not bval(e == g):
                    return ('CEX', 'trans', 'e == f and f == g but not e == g', wit())
            return ('OK',)
        if kind == 'copy':
            e = B(mkF('e'))
            c = e.copy()
            if not bval(c == e):
                return ('CEX', 'copy-eq', 'copy() is not equal to the original', wit())
            ids = set(id(x) for x in nodes(e))
            for x in nodes(c):
                if id(x) in ids:
                    return ('CEX', 'copy-share', 'copy() shares a %s node with the original' % type(x).__name__, wit())
            v = e.visit(lambda x: x)
            if not bval(v == e):
                return ('CEX', 'visit', 'visit(identity) is not equal to the original', wit())
            return ('OK',)
        raise ValueError(kind)
    rs = eng.explore(fn)
    return eng, rs, name, {'kind': kind, 'builder': bname, 'other': other}


# -------------------------------------------------------------------------------------------------
# Part C: value laws
# -------------------------------------------------------------------------------------------------
def sub_shapes(s, acc=None, path=()):
    if acc is None:
        acc = []
    acc.append((path, s))
    k = s[0]
    if k == 'mem':
        sub_shapes(s[1], acc, path + (1,))
    elif k == 'smem':
        sub_shapes(s[1], acc, path + (1,))
        sub_shapes(s[3], acc, path + (3,))
    elif k == 'op':
        for i, x in enumerate(s[2]):
            sub_shapes(x, acc, path + (2, i))
    elif k == 'cond':
        for i in (1, 2, 3):
            sub_shapes(s[i], acc, path + (i,))
    elif k == 'slice':
        sub_shapes(s[1], acc, path + (1,))
    elif k == 'compose':
        for i, x in enumerate(s[1]):
            sub_shapes(x[0], acc, path + (1, i, 0))
    return acc


def ref_replace(e, s, r, decide):
    """reference substitution on the tree (bottom-up, like visit): nodes structurally equal to s become r.
    decide(z3 formula) -> True / False under the current path condition"""
    if isinstance(e, (X.ExprInt, X.ExprId)):
        ne = e
    elif isinstance(e, X.ExprMem):
        ne = X.ExprMem(ref_replace(e.arg, s, r, decide), e.size,
                       ref_replace(e.segm, s, r, decide) if isinstance(e.segm, X.Expr) else e.segm)
    elif isinstance(e, X.ExprOp):
        ne = X.ExprOp(e.op, *[ref_replace(a, s, r, decide) for a in e.args])
    elif isinstance(e, X.ExprCond):
        ne = X.ExprCond(ref_replace(e.cond, s, r, decide), ref_replace(e.src1, s, r, decide), ref_replace(e.src2, s, r, decide))
    elif isinstance(e, X.ExprSlice):
        ne = X.ExprSlice(ref_replace(e.arg, s, r, decide), e.start, e.stop)
    elif isinstance(e, X.ExprCompose):
        ne = X.ExprCompose([(ref_replace(a[0], s, r, decide), a[1], a[2]) for a in e.args])
    else:
        raise ValueError(e)
    eq = c13.struct_eq(ne, s)
    if eq is True:
        return r
    if eq is False:
        return ne
    return r if decide(eq) else ne


def ref_replace_map(e, pairs, decide):
    """reference simultaneous substitution for a map of several entries whose keys are pairwise different and not nested:
    bottom-up, a rebuilt node equal to a key becomes that key's replacement; replacements are not descended into"""
    if isinstance(e, (X.ExprInt, X.ExprId)):
        ne = e
    elif isinstance(e, X.ExprMem):
        ne = X.ExprMem(ref_replace_map(e.arg, pairs, decide), e.size,
                       ref_replace_map(e.segm, pairs, decide) if isinstance(e.segm, X.Expr) else e.segm)
    elif isinstance(e, X.ExprOp):
        ne = X.ExprOp(e.op, *[ref_replace_map(a, pairs, decide) for a in e.args])
    elif isinstance(e, X.ExprCond):
        ne = X.ExprCond(ref_replace_map(e.cond, pairs, decide), ref_replace_map(e.src1, pairs, decide), ref_replace_map(e.src2, pairs, decide))
    elif isinstance(e, X.ExprSlice):
        ne = X.ExprSlice(ref_replace_map(e.arg, pairs, decide), e.start, e.stop)
    elif isinstance(e, X.ExprCompose):
        ne = X.ExprCompose([(ref_replace_map(a[0], pairs, decide), a[1], a[2]) for a in e.args])
    else:
        raise ValueError(e)
    for s, r in pairs:
        eq = c13.struct_eq(ne, s)
        if eq is True or (eq is not False and decide(eq)):
            return r
    return ne


UCLS = None


def pair_map(sub1, sub2, w1, w2, variant):
    """the two-entry maps tried for a pair of disjoint sub-expressions (as a list of (key, replacement) in insertion order)"""
    one = lambda w: X.ExprInt({1: M.uint1, 8: M.uint8, 16: M.uint16, 32: M.uint32, 64: M.uint64}[w](1))
    r1, r2 = X.ExprId('zz', w1), X.ExprId('yy', w2)
    if variant == 'ids':
        return [(sub1, r1), (sub2, r2)]
    if variant == 'order':
        return [(sub2, r2), (sub1, r1)]
    if variant == 'cross':      # the replacement of the first key mentions the second key (and conversely): no re-substitution
        if w1 == w2 and w1 in G.WIDTHS:
            return [(sub1, X.ExprOp('+', sub2, one(w1))), (sub2, X.ExprOp('^', sub1, r2))]
        return [(sub1, X.ExprCond(sub2, r1, r1)), (sub2, X.ExprCond(sub1, r2, r2))]
    if variant == 'swap':       # exchange the two sub-terms
        if w1 == w2:
            return [(sub1, sub2), (sub2, sub1)]
        return None
    raise ValueError(variant)

PAIR_VARIANTS = ('ids', 'order', 'cross', 'swap')


def value_shapes(tier, seed):
    rnd = random.Random(seed)
    out = []
    for n in ([32, 8] if tier == 'quick' else [32, 8, 16, 64]):
        sh = G.rule_templates(n) + G.depth1(n, rich=True)
        sh = [G.renumber(s) for s in sh]
        sh = [s for s in dict.fromkeys(sh) if all(sz in G.WIDTHS for _, sz in G.ints_of(s))]
        if tier == 'quick':
            rnd.shuffle(sh)
            sh = sh[:260 if n == 32 else 120]
        out += sh
        if n >= 8:
            p, q, a = ('id', 'p', 32), ('id', 'q', 32), ('id', 'a', n)
            ds, sel = ('id', 'ds', 16), ('slice', ('id', 'sel', 32), 0, 16)
            sm1 = ('smem', p, n, ds)
            sm2 = ('smem', ('op', '+', (p, ('int', 0, 32))), n, sel)
            sm3 = ('smem', ('mem', q, 32), n, ds)
            out += [sm1, sm2, sm3, ('op', '+', (sm1, a)), ('op', '^', (a, sm2, sm1)), ('cond', sm1, a, sm2), ('op', '-', (sm3,)),
                    ('mem', ('op', '+', (sm1 if n == 32 else p, q)), n)]
            if n >= 16:
                out += [('slice', sm1, 0, n // 2), ('compose', ((('slice', sm2, 0, n // 2), 0, n // 2), (('slice', a, n // 2, n), n // 2, n)))]
    return out


PAIR_CAP = [6]


def value_job(shape):
    eng = Engine(width=max(72, 2 * max([w2(shape)] + [sz for _, sz in c16.ints2(shape, [])]) + 8), timeout_ms=20000, max_paths=400, max_seconds=120)
    name = c16.show2(shape)
    n = w2(shape)
    subs = sub_shapes(shape)

    def fn(eng):
        consts = consts2(shape)
        e = c16.build2(shape, consts)
        c = ir2smt.Ctx(strict=False)
        t = ir2smt.tr(e, c)
        # canonize
        try:
            ce = e.canonize()
        except PathAbort:
            raise
        except Exception as ex:
            return ('CEX', 'canon-exc', 'canonize raises %s: %s' % (type(ex).__name__, ex), eng.model_inputs(eng.witness()), None)
        tc = ir2smt.tr(ce, c, want=n)
        if tc.size() != t.size():
            return ('CEX', 'canon-width', 'canonize changes the width', eng.model_inputs(eng.witness()), None)
        st, m = eng.find(tc != t)
        if st == 'sat':
            return ('CEX', 'canon', 'canonize changes the value: %s' % ce, eng.model_inputs(m), None)
        if st != 'unsat':
            return ('UNKNOWN', 'canon')
        # width-variant equality: e == f  =>  same value
        # replace_expr with a singleton map, for every sub-expression
        seen = set()
        for path, s in subs:
            if s in seen:
                continue
            seen.add(s)
            w = w2(s)
            sub_e = c16.build2(s, consts)
            ts = ir2smt.tr(sub_e, c)
            for rk in ('id', 'op'):
                if rk == 'id':
                    r_e = X.ExprId('zz', w)
                else:
                    if w not in G.WIDTHS:
                        continue
                    r_e = X.ExprOp('+', X.ExprId('zz', w), X.ExprInt({1: M.uint1, 8: M.uint8, 16: M.uint16, 32: M.uint32, 64: M.uint64}[w](1)))
                tr_ = ir2smt.tr(r_e, c)
                try:
                    e2 = c16.build2(shape, consts).replace_expr({sub_e: r_e})
                except PathAbort:
                    raise
                except Exception as ex:
                    return ('CEX', 'replace-exc', 'replace_expr raises %s: %s' % (type(ex).__name__, ex), eng.model_inputs(eng.witness()), (s, rk))
                try:
                    t2 = ir2smt.tr(e2, c, want=n)
                except (ir2smt.IllTyped, ir2smt.Untranslatable) as ex:
                    return ('CEX', 'replace-illformed', 'result is not well-formed: %s' % ex, eng.model_inputs(eng.witness()), (s, rk))
                def decide(f):
                    if eng.prove(f):
                        return True
                    if eng.prove(z3.Not(f)):
                        return False
                    raise PathAbort('equality of sub-expressions undecided on this path')
                want = ir2smt.tr(ref_replace(c16.build2(shape, consts), sub_e, r_e, decide), c, want=n)
                if t2.size() != want.size():
                    return ('CEX', 'replace-width', 'result has width %d' % t2.size(), eng.model_inputs(eng.witness()), (s, rk))
                st, m = eng.find(t2 != want)
                if st == 'sat':
                    return ('CEX', 'replace', 'replace_expr({%s: %s}) = %s does not denote substitution' % (sub_e, r_e, e2), eng.model_inputs(m), (s, rk))
                if st != 'unsat':
                    return ('UNKNOWN', 'replace')
        # replace_expr with maps of two entries over disjoint sub-expressions: simultaneous substitution
        def decide(f):
            if eng.prove(f):
                return True
            if eng.prove(z3.Not(f)):
                return False
            raise PathAbort('equality of sub-expressions undecided on this path')
        def surely_differ(a, b):
            eq = c13.struct_eq(a, b)
            return eq is False or (eq is not True and eng.prove(z3.Not(eq)))
        uniq = list(dict.fromkeys(s for _, s in subs if s != shape))
        pairs = []
        for i, s1 in enumerate(uniq):
            for s2 in uniq[i + 1:]:
                d1 = [x for _, x in sub_shapes(s1)]
                d2 = [x for _, x in sub_shapes(s2)]
                if s1 in d2 or s2 in d1:
                    continue
                pairs.append((s1, s2))
        pairs = pairs[:PAIR_CAP[0]]
        for s1, s2 in pairs:
            w1, w2_ = w2(s1), w2(s2)
            b1, b2 = c16.build2(s1, consts), c16.build2(s2, consts)
            # keys must be different and not nested for every constant of the path (else the map is ambiguous: skipped)
            if not all(surely_differ(b1, c16.build2(d, consts)) for _, d in sub_shapes(s2)) or \
               not all(surely_differ(b2, c16.build2(d, consts)) for _, d in sub_shapes(s1)):
                continue
            for variant in PAIR_VARIANTS:
                mp = pair_map(b1, b2, w1, w2_, variant)
                if mp is None:
                    continue
                extra = ('pair', s1, s2, variant)
                try:
                    e2 = c16.build2(shape, consts).replace_expr(dict(mp))
                except PathAbort:
                    raise
                except Exception as ex:
                    return ('CEX', 'replace2-exc', 'replace_expr raises %s: %s' % (type(ex).__name__, ex), eng.model_inputs(eng.witness()), extra)
                try:
                    t2 = ir2smt.tr(e2, c, want=n)
                except (ir2smt.IllTyped, ir2smt.Untranslatable) as ex:
                    return ('CEX', 'replace2-illformed', 'result is not well-formed: %s' % ex, eng.model_inputs(eng.witness()), extra)
                want = ir2smt.tr(ref_replace_map(c16.build2(shape, consts), mp, decide), c, want=n)
                if t2.size() != want.size():
                    return ('CEX', 'replace2-width', 'result has width %d' % t2.size(), eng.model_inputs(eng.witness()), extra)
                st, m = eng.find(t2 != want)
                if st == 'sat':
                    return ('CEX', 'replace2', 'replace_expr({%s}) = %s does not denote simultaneous substitution' % (', '.join('%s: %s' % kv for kv in mp), e2), eng.model_inputs(m), extra)
                if st != 'unsat':
                    return ('UNKNOWN', 'replace2')
        return ('OK',)
    rs = eng.explore(fn)
    return eng, rs, name, {'kind': 'value', 'shape': shape}


def eqval_job(n):
    """e == f => same width and value, for constants of different classes holding symbolic values"""
    eng = Engine(width=140, timeout_ms=20000, max_paths=400, max_seconds=60)
    name = 'eq-implies-value:w%d' % n
    UC = {1: M.uint1, 8: M.uint8, 16: M.uint16, 32: M.uint32, 64: M.uint64}

    def fn(eng):
        res = []
        for n2 in (1, 8, 16, 32, 64):
            k1 = SInt.var('k1_%d' % n2, 0, (1 << n) - 1)
            k2 = SInt.var('k2_%d' % n2, 0, (1 << n2) - 1)
            for wrap in ('bare', 'neg', 'mem'):
                if wrap == 'bare':
                    e, f = X.ExprInt(UC[n](k1)), X.ExprInt(UC[n2](k2))
                elif wrap == 'neg':
                    e, f = X.ExprOp('-', X.ExprInt(UC[n](k1))), X.ExprOp('-', X.ExprInt(UC[n2](k2)))
                else:
                    e, f = X.ExprMem(X.ExprInt(UC[n](k1)), 8), X.ExprMem(X.ExprInt(UC[n2](k2)), 8)
                if bval(e == f):
                    c = ir2smt.Ctx(strict=False)
                    te, tf = ir2smt.tr(e, c), ir2smt.tr(f, c)
                    # equal integers of different classes denote the same number; the law is about the value
                    # (compared after zero-extension to the wider of the two)
                    w = max(te.size(), tf.size())
                    te = z3.ZeroExt(w - te.size(), te) if te.size() < w else te
                    tf = z3.ZeroExt(w - tf.size(), tf) if tf.size() < w else tf
                    st, m = eng.find(te != tf)
                    if st == 'sat':
                        return ('CEX', 'eqval:%s:%d:%d' % (wrap, n, n2), 'e == f but values differ', eng.model_inputs(m), (n, n2, wrap))
        return ('OK',)
    rs = eng.explore(fn)
    return eng, rs, name, {'kind': 'eqval', 'n': n}


# -------------------------------------------------------------------------------------------------
def jobs(tier, seed):
    items = []
    for b in BUILDERS:
        items.append(('law', 'refl', b, None))
        items.append(('law', 'copy', b, None))
        items.append(('law', 'sym', b, None))
        items.append(('law', 'trans', b, None))
        for i in range(len(PERTURB.get(b, []))):
            items.append(('law', 'sym', b, i))
            items.append(('law', 'trans', b, i))
    for n in (8, 32):
        items.append(('eqval', n))
    for s in value_shapes(tier, seed):
        items.append(('value', s))
    return [('chunk', tier, items[i:i + CHUNK]) for i in range(0, len(items), CHUNK)]


def run_job(job):
    _, tier, items = job
    PAIR_CAP[0] = 6 if tier == 'quick' else 20
    res = {'paths': 0, 'queries': 0, 'solver_s': 0.0, 'obligations': 0, 'proved': 0, 'candidates': [],
           'inconclusive': [], 'samples': [], 'programs': 0, 'nontrivial': 0}
    for it in items:
        res['programs'] += 1
        if it[0] == 'law':
            eng, rs, name, data = law_job(it[1], it[2], it[3])
            cls = '%s%s' % (it[2], '' if it[3] is None else '~%d' % it[3])
        elif it[0] == 'eqval':
            eng, rs, name, data = eqval_job(it[1])
            cls = 'w%d' % it[1]
        else:
            eng, rs, name, data = value_job(it[1])
            cls = c16.skel(it[1]) + ':w%d' % w2(it[1])
        res['paths'] += eng.stats['paths']
        res['queries'] += eng.stats['queries']
        res['solver_s'] += eng.stats['solver_s']
        for u in eng.unexplored:
            res['inconclusive'].append('%s: %s' % (name, u))
        ok = 0
        for r in rs:
            if r[0] == 'OK':
                ok += 1
                res['obligations'] += 1
                res['proved'] += 1
            elif r[0] == 'CEX':
                res['obligations'] += 1
                d = dict(data)
                d['vals'] = {str(k): v for k, v in r[3].items()}
                d['what'] = r[1]
                if len(r) > 4:
                    d['extra'] = r[4]
                res['candidates'].append({'key': '%s:%s' % (r[1], cls), 'desc': '%s: %s with %s' % (name, r[2], r[3]), 'data': d})
            else:
                res['inconclusive'].append('%s: %s' % (name, r[1] if len(r) > 1 else r[0]))
        if ok:
            res['nontrivial'] += 1
            if len(res['samples']) < 2:
                res['samples'].append({'case': name, 'paths': len(rs), 'verdict': 'law holds on %d path(s) for all field values / constants' % ok})
    return res


REPLAY = r'''
# replay of a C15 counterexample on the real code (exit 1 = property violated)
import sys
import z3
import miasmx.expression.expression as X
import miasmx.tools.modint as M
from vf import ir2smt
from vf.gen import shapes as G
from vf.checks import c15, c13, c05
from vf.checks import c16
c15.X = c13.X = c05.X = c16.X = X; c15.M = c05.M = c16.M = M
D = %(data)r
V = D['vals']; bad = False; what = D['what']
def mkF(prefix):
    def F(tag, lo, hi): return V.get('%%s_%%s' %% (prefix, tag), lo)
    return F
if D['kind'] == 'law':
    B = c15.BUILDERS[D['builder']]; B2 = B if D['other'] is None else c15.PERTURB[D['builder']][D['other']]
    e, f, g = B(mkF('e')), B2(mkF('f')), B(mkF('g'))
    if D['law'] if 'law' in D else False: pass
    k = what
    if k in ('refl',): e2 = B(mkF('e')); bad = not (e == e2); print(e, '==', e2, '->', e == e2)
    elif k == 'ne':
        e2 = B(mkF('e')) if D['law_kind'] == 'refl' else f
        bad = (e != e2) == (e == e2); print('(e != f) =', e != e2, ' (e == f) =', e == e2)
    elif k == 'hash':
        e2 = B(mkF('e')) if D['law_kind'] == 'refl' else f
        bad = (e == e2) and hash(e) != hash(e2); print(e, e2, 'equal:', e == e2, 'hashes:', hash(e), hash(e2))
    elif k == 'sym': bad = (e == f) != (f == e); print('e =', e, ' f =', f, ' e==f:', e == f, ' f==e:', f == e)
    elif k == 'trans': bad = (e == f) and (f == g) and not (e == g); print(e, f, g, e == f, f == g, e == g)
    elif k.startswith('copy') or k == 'visit':
        c = e.copy(); ids = set(id(x) for x in c15.nodes(e))
        if k == 'copy-eq': bad = not (c == e)
        elif k == 'copy-share': bad = any(id(x) in ids for x in c15.nodes(c))
        else: bad = not (e.visit(lambda x: x) == e)
elif D['kind'] == 'eqval':
    n, n2, wrap = D['extra']; UC = {1: M.uint1, 8: M.uint8, 16: M.uint16, 32: M.uint32, 64: M.uint64}
    k1, k2 = V['k1_%%d' %% n2], V['k2_%%d' %% n2]
    if wrap == 'bare': e, f = X.ExprInt(UC[n](k1)), X.ExprInt(UC[n2](k2))
    elif wrap == 'neg': e, f = X.ExprOp('-', X.ExprInt(UC[n](k1))), X.ExprOp('-', X.ExprInt(UC[n2](k2)))
    else: e, f = X.ExprMem(X.ExprInt(UC[n](k1)), 8), X.ExprMem(X.ExprInt(UC[n2](k2)), 8)
    if e == f:
        c = ir2smt.Ctx(strict=False); te, tf = ir2smt.tr(e, c), ir2smt.tr(f, c)
        print(e, '==', f, 'widths', te.size(), tf.size())
        w = max(te.size(), tf.size())
        te = z3.ZeroExt(w - te.size(), te) if te.size() < w else te
        tf = z3.ZeroExt(w - tf.size(), tf) if tf.size() < w else tf
        s = z3.Solver(); s.add(te != tf); bad = s.check() == z3.sat
        if bad: print('values:', s.model().eval(te), s.model().eval(tf))
else:
    consts = {int(k[1:]): v for k, v in V.items() if k[0] == 'k'}
    for k, size in c16.ints2(D['shape'], []): consts.setdefault(k, 0)
    e = c16.build2(D['shape'], consts); c = ir2smt.Ctx(strict=False); t = ir2smt.tr(e, c); n = c15.w2(D['shape'])
    s = z3.Solver()
    try:
        if what.startswith('canon'):
            ce = e.canonize(); print(e, '-> canonize ->', ce)
            tc = ir2smt.tr(ce, c, want=n)
            if tc.size() != t.size(): bad = True
            else: s.add(tc != t); bad = s.check() == z3.sat
        else:
            if D['extra'][0] == 'pair':
                _, s1, s2, variant = D['extra']
                mp = c15.pair_map(c16.build2(s1, consts), c16.build2(s2, consts), c15.w2(s1), c15.w2(s2), variant)
                e2 = c16.build2(D['shape'], consts).replace_expr(dict(mp))
                print(e, '.replace_expr({%%s}) =' %% ', '.join('%%s: %%s' %% kv for kv in mp), e2)
                try:
                    t2 = ir2smt.tr(e2, c, want=n)
                    want = ir2smt.tr(c15.ref_replace_map(c16.build2(D['shape'], consts), mp, lambda f: z3.is_true(z3.simplify(f))), c, want=n)
                    if t2.size() != want.size(): bad = True
                    else: s.add(t2 != want); bad = s.check() == z3.sat
                except (ir2smt.IllTyped, ir2smt.Untranslatable) as ex:
                    print('not well-formed:', ex); bad = True
                print('C15 replay:', 'VIOLATED' if bad else 'holds'); sys.exit(1 if bad else 0)
            sshape, rk = D['extra']; w = c15.w2(sshape)
            sub_e = c16.build2(sshape, consts); ts = ir2smt.tr(sub_e, c)
            r_e = X.ExprId('zz', w) if rk == 'id' else X.ExprOp('+', X.ExprId('zz', w), X.ExprInt({1: M.uint1, 8: M.uint8, 16: M.uint16, 32: M.uint32, 64: M.uint64}[w](1)))
            tr_ = ir2smt.tr(r_e, c)
            e2 = c16.build2(D['shape'], consts).replace_expr({sub_e: r_e})
            print(e, '.replace_expr({%%s: %%s}) =' %% (sub_e, r_e), e2)
            try:
                t2 = ir2smt.tr(e2, c, want=n)
                want = ir2smt.tr(c15.ref_replace(c16.build2(D['shape'], consts), sub_e, r_e, lambda f: z3.is_true(z3.simplify(f))), c, want=n)
                if t2.size() != want.size(): bad = True
                else: s.add(t2 != want); bad = s.check() == z3.sat
            except (ir2smt.IllTyped, ir2smt.Untranslatable) as ex:
                print('not well-formed:', ex); bad = True
    except Exception as ex:
        print('raises', type(ex).__name__, ex); bad = True
print('C15 replay:', 'VIOLATED' if bad else 'holds')
sys.exit(1 if bad else 0)
'''


def make_replay(cnd):
    d = dict(cnd['data'])
    if d.get('kind') in ('refl', 'sym', 'trans', 'copy'):
        d['law_kind'] = d['kind']
        d['kind'] = 'law'
    return REPLAY % {'data': d}


def main(argv=None):
    a = common.tier_seed(argv)
    t0 = time.time()
    js = jobs(a.tier, a.seed)
    if a.only:
        js = [(k, t, [it for it in items if a.only in repr(it)]) for k, t, items in js]
        js = [j for j in js if j[2]]
    results, left = common.run_pool('vf.checks.c15', js, nproc=a.nproc, budget_s=1500 if a.tier == 'quick' else 5400)
    cov, cands, inconc, herr = c05.aggregate(results, left)
    cov['exhaustive'] = False
    cov['rule'] = 'a program = one (law, node builder[, perturbation]) with symbolic node fields, or one shape for the value laws; non-trivial = at least one path proved'
    cov['functions_encoded'] = ['miasmx.expression.expression:__eq__/__ne__/__hash__/copy/visit of ExprInt, ExprId, ExprAff, ExprCond, ExprMem, ExprOp, ExprSlice, ExprCompose',
                                'Expr.replace_expr', 'Expr.canonize', 'canonize_expr_list/_compose, key_expr']
    cov['bounds'] = ('18 node builders with symbolic sizes (1..128), slice/compose bounds (0..64) and constants; 3-element name alphabet; '
                     'value laws over rule templates + depth-1 shapes (sampled in quick), replacement maps of size 1 over every sub-expression, replacements {identifier, identifier+1}; maps of size 2 over up to 6 (quick) / 20 (thorough) pairs of disjoint, provably different sub-expressions per shape in 4 variants (fresh identifiers, reversed insertion order, replacements that mention the other key, exchange of the two sub-terms)')
    if cov['proved'] == 0:
        herr.append('vacuous: nothing proved')
    assumptions = ['hash of an integer n: n itself for 0 <= n < 2^61-1 (CPython), an uninterpreted function of the value beyond; str hashes concrete', 'E1 meaning of the IR', 'z3 5.1.0', 'SInt proxy']
    return common.finish(PROP, a.tier, a.seed, 'model_checking', t0, cov, assumptions, cands, herr, inconc, make_replay)


if __name__ == '__main__':
    sys.exit(main())
