"""C05 - expression simplification preserves meaning (and width) and terminates.

Every constant of every shape is a symbolic integer (E2) flowing through the real expr_simp; every
identifier and memory byte is a free SMT variable (E1).  Per path: width(out) == width(in) and
E1(out) == E1(in) for all valuations and all constants of the path.
"""
import sys
import time

import z3

from vf import common, ir2smt
from vf.gen import shapes as G
from vf.symex import core, instr
from vf.symex.core import SInt, Engine, PathAbort

PROP = 'C05'
CHUNK = 40


def worker_init():
    instr.install()
    global X, H, M
    import miasmx.tools.modint as M
    import miasmx.expression.expression as X
    import miasmx.expression.expression_helper as H


def jobs(tier, seed):
    sh = G.c05_shapes(tier, seed)
    return [('shapes', tier, sh[i:i + CHUNK]) for i in range(0, len(sh), CHUNK)]


def sym_consts(shape):
    consts = {}
    for k, size in G.ints_of(shape):
        consts[k] = SInt.var('k%d' % k, 0, (1 << size) - 1)
    return consts


def shape_width(shape):
    ws = [sz for _, sz in G.ints_of(shape)] + [G.width(shape)]
    n = max(ws + [32])
    return max(72, 2 * n + 8)


def rule_class(shape):
    """finding key component: the operator skeleton of the shape (constants and names abstracted)"""
    k = shape[0]
    if k in ('id',):
        return 'v'
    if k in ('int', 'cint'):
        return 'K'
    if k == 'mem':
        return '@(%s)' % rule_class(shape[1])
    if k == 'op':
        return '%s(%s)' % (shape[1], ','.join(rule_class(x) for x in shape[2]))
    if k == 'cond':
        return '?(%s,%s,%s)' % tuple(rule_class(x) for x in shape[1:])
    if k == 'slice':
        return '[%s]' % rule_class(shape[1])
    if k == 'compose':
        return '{%s}' % ','.join(rule_class(x[0]) for x in shape[1])
    return '?'


def check_shape(shape, res, tier):
    eng = Engine(width=shape_width(shape), timeout_ms=20000 if tier == 'quick' else 60000, max_paths=400,
                 max_seconds=60 if tier == 'quick' else 240, path_seconds=10)
    name = G.show(shape)
    n = G.width(shape)

    def fn(eng):
        consts = sym_consts(shape)
        e = G.build(shape, consts, X, M)
        c = ir2smt.Ctx(strict=True)
        try:
            t_in = ir2smt.tr(e, c)
        except ir2smt.IllTyped as ex:
            return ('GEN', 'generator produced ill-typed input: %s' % ex.msg)
        c.strict = False
        try:
            r = H.expr_simp(e)
        except PathAbort:
            raise
        except RecursionError as ex:
            return ('CEX', 'nonterm', 'RecursionError', eng.model_inputs(eng.witness()), None)
        except Exception as ex:
            return ('CEX', 'exc:' + type(ex).__name__, '%s: %s' % (type(ex).__name__, str(ex)[:80]),
                    eng.model_inputs(eng.witness()), None)
        try:
            t_out = ir2smt.tr(r, c, want=n)
        except (ir2smt.IllTyped, ir2smt.Untranslatable) as ex:
            return ('CEX', 'illformed', 'output is not well-formed IR: %s' % ex, eng.model_inputs(eng.witness()), None)
        if t_out.size() != t_in.size():
            return ('CEX', 'width', 'width %d -> %d' % (t_in.size(), t_out.size()), eng.model_inputs(eng.witness()), None)
        st, m = eng.find(t_in != t_out)
        if st == 'unsat':
            return ('OK',)
        if st == 'sat':
            return ('CEX', 'value', 'value differs', eng.model_inputs(m), None)
        return ('UNKNOWN',)

    rs = eng.explore(fn)
    res['paths'] += eng.stats['paths']
    res['queries'] += eng.stats['queries']
    res['solver_s'] += eng.stats['solver_s']
    for u in eng.unexplored:
        res['inconclusive'].append('%s: %s' % (name, u))
    ok = 0
    for r in rs:
        if r[0] == 'OK':
            ok += 1
            res['proved'] += 1
            res['obligations'] += 1
        elif r[0] == 'CEX':
            res['obligations'] += 1
            key = '%s:%s:w%d' % (r[1], rule_class(shape), n)
            res['candidates'].append({'key': key, 'desc': '%s on %s with %s' % (r[2], name, r[3]),
                                      'data': {'shape': shape, 'consts': {str(k): v for k, v in r[3].items()}, 'kind': r[1]}})
        elif r[0] == 'TIMEOUT':
            res['obligations'] += 1
            rc_ = rule_class(shape)
            key = 'nonterm:%s:w%d' % (rc_, n)
            if n == 64 and ('<<(K,K)' in rc_ or '>>(K,K)' in rc_ or '<<<(K,K)' in rc_):
                # one root cause: constant folding of a 64-bit shift whose count is itself a huge constant (x << 2**63 never finishes);
                # which shape the solver's model exposes it on varies with the run - one finding, not one per shape
                key = 'nonterm:constant-shift-by-huge-count:w64'
            res['candidates'].append({'key': key, 'desc': 'no result within 10 s on %s with %s' % (name, r[1]),
                                      'soft': True,
                                      'data': {'shape': shape, 'consts': {str(k): v for k, v in r[1].items()}, 'kind': 'nonterm'}})
        elif r[0] == 'GEN':
            res['gen_skipped'] += 1
        else:
            res['inconclusive'].append('%s: %s' % (name, r[1] if len(r) > 1 else r[0]))
    if ok and len(res['samples']) < 2:
        res['samples'].append({'shape': name, 'paths': len(rs), 'verdict': 'unsat on %d path(s): meaning and width preserved for all constants and valuations' % ok})
    if ok:
        res['nontrivial'] += 1


def run_job(job):
    _, tier, shs = job
    res = {'paths': 0, 'queries': 0, 'solver_s': 0.0, 'obligations': 0, 'proved': 0, 'candidates': [],
           'inconclusive': [], 'samples': [], 'gen_skipped': 0, 'programs': 0, 'nontrivial': 0}
    for sh in shs:
        res['programs'] += 1
        check_shape(sh, res, tier)
    return res


REPLAY = r'''
# replay of a C05 counterexample on the real expr_simp (exit 1 = property violated)
import sys, signal
import z3
import miasmx.expression.expression as X
import miasmx.tools.modint as M
from miasmx.expression.expression_helper import expr_simp
from vf import ir2smt
from vf.gen import shapes as G
D = %(data)r
consts = {int(k[1:]): v for k, v in D['consts'].items()}
e = G.build(D['shape'], consts, X, M)
print('input :', e)
def alarm(*a): raise TimeoutError()
signal.signal(signal.SIGALRM, alarm); signal.alarm(20)
bad = False
try:
    r = expr_simp(e)
    signal.alarm(0)
    print('output:', r)
    c = ir2smt.Ctx(strict=False)
    n = G.width(D['shape'])
    t_in = ir2smt.tr(G.build(D['shape'], consts, X, M), c)
    try:
        t_out = ir2smt.tr(r, c, want=n)
        if t_out.size() != t_in.size():
            bad = True; print('width', t_in.size(), '->', t_out.size())
        else:
            s = z3.Solver(); s.add(t_in != t_out)
            if s.check() == z3.sat:
                m = s.model(); bad = True
                print('valuation:', {str(d): m[d] for d in m.decls() if 'MEM' not in str(d)}, ' in =', m.eval(t_in), ' out =', m.eval(t_out))
    except (ir2smt.IllTyped, ir2smt.Untranslatable) as ex:
        bad = True; print('output not well-formed:', ex)
except TimeoutError:
    bad = True; print('no result within 20 s')
except RecursionError:
    bad = True; print('RecursionError')
except Exception as ex:
    bad = True; print('exception', type(ex).__name__, ex)
print('C05 replay:', 'VIOLATED' if bad else 'holds')
sys.exit(1 if bad else 0)
'''


def make_replay(cnd):
    return REPLAY % {'data': cnd['data']}


def aggregate(results, left):
    cov = dict(programs=0, states=0, transitions=0, obligations=0, proved=0, samples=[], solver_s=0.0,
               gen_skipped=0, distinct_nontrivial=0)
    cands, inconc, herr = [], list(left), []
    for r in results:
        if 'harness_error' in r:
            herr.append(r['harness_error'][-1500:])
            continue
        cov['programs'] += r['programs']
        cov['states'] += r['paths']
        cov['transitions'] += r['queries']
        cov['obligations'] += r['obligations']
        cov['proved'] += r['proved']
        cov['solver_s'] += r['solver_s']
        cov['gen_skipped'] += r.get('gen_skipped', 0)
        cov['distinct_nontrivial'] += r['nontrivial']
        cands += r['candidates']
        inconc += r['inconclusive']
        if len(cov['samples']) < 10:
            cov['samples'] += r['samples'][:1]
    cov['solver_s'] = round(cov['solver_s'], 2)
    cov['evaluations'] = cov['programs']
    slow = sorted(((r.get('wall_s', 0), r.get('paths', 0), r.get('job')) for r in results if 'harness_error' not in r), key=lambda x: -x[0])[:6]
    cov['slowest_jobs'] = [{'wall_s': round(w, 1), 'paths': p, 'job': str(j)[:110]} for w, p, j in slow]
    return cov, cands, inconc, herr


def main(argv=None):
    a = common.tier_seed(argv)
    t0 = time.time()
    js = jobs(a.tier, a.seed)
    if a.only:
        js = [(k, t, [s for s in sh if a.only in G.show(s)]) for k, t, sh in js]
        js = [j for j in js if j[2]]
    results, left = common.run_pool('vf.checks.c05', js, nproc=a.nproc, budget_s=1500 if a.tier == 'quick' else 5400)
    cov, cands, inconc, herr = aggregate(results, left)
    cov['exhaustive'] = False
    cov['rule'] = 'a program = one expression shape with all constants symbolic; non-trivial = at least one path proved'
    cov['functions_encoded'] = ['miasmx.expression.expression_helper:expr_simp/_expr_simp_w/_expr_simp/merge_sliceto_slice/parity',
                                'miasmx.expression.expression:visit/canonize_expr_list/key_expr/__eq__ of every node class',
                                'miasmx.tools.modint (all arithmetic on the constants)']
    cov['bounds'] = ('shapes: one template set per rewrite rule + all depth-1 shapes' +
                     (' + all depth-2 shapes' if a.tier == 'thorough' else ' + seeded sample of depth-2 shapes at widths 32 and 8') +
                     '; widths 1,8,16,32,64; arity <= 4; <= 3 distinct identifiers; every constant unconstrained over its width; '
                     'per-path wall limit 10 s (termination)')
    if cov['proved'] == 0:
        herr.append('vacuous: nothing proved')
    assumptions = ['standard bit-vector meaning of the IR as in DESIGN section 4 (vf/ir2smt.py)', 'z3 5.1.0', 'SInt proxy']
    return common.finish(PROP, a.tier, a.seed, 'translation_validation', t0, cov, assumptions, cands, herr, inconc, make_replay)


if __name__ == '__main__':
    sys.exit(main())
