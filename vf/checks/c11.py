"""C11 - every decodable instruction lifts to well-typed IR.

On every path of the symbolic decoder exploration whose mnemonic has lifted semantics (dispatch table or
the '#' MMX fallback) the real get_instr_expr() is called on the symbolic instruction descriptor
(immediates and displacements stay symbolic inside the ExprInt's the lifter builds).  Assertions:
 (1) no exception; (2) every element is an ExprAff with an ExprId/ExprMem destination and an assignment-free
 source; (3) STRICT E1 translation succeeds (z3's sort checking + explicit slice / compose tiling checks);
 (4) a 1-bit flag receiving a wider source: "exists valuation. source >u 1" must be unsat;
 (5) no two assignments write the same identifier; two memory destinations never intersect (SMT).
"""
import re
import sys
import time

import z3

from vf import common, ir2smt
from vf.symex import core, instr
from vf.symex.core import SInt, SBool, Engine, PathAbort
from vf.x86 import explore as E
from vf.checks import c05, c10

PROP = 'C11'


def worker_init():
    E.worker_init()
    global SEM, EH, X, M
    import miasmx.arch.ia32_sem as SEM
    import miasmx.tools.emul_helper as EH
    import miasmx.expression.expression as X
    import miasmx.tools.modint as M


def reset_singletons():
    """memo attributes left on the module-level register objects by earlier paths must not steer this one"""
    for v in vars(SEM).values():
        if isinstance(v, X.Expr):
            v.__dict__.pop('simp', None)
            v.__dict__.pop('is_eval', None) if 'is_eval' in v.__dict__ else None


def has_aff(e):
    if isinstance(e, X.ExprAff):
        return True
    if isinstance(e, X.ExprOp):
        return any(has_aff(a) for a in e.args)
    if isinstance(e, X.ExprMem):
        return has_aff(e.arg)
    if isinstance(e, X.ExprCond):
        return has_aff(e.cond) or has_aff(e.src1) or has_aff(e.src2)
    if isinstance(e, X.ExprSlice):
        return has_aff(e.arg)
    if isinstance(e, X.ExprCompose):
        return any(has_aff(a[0]) for a in e.args)
    return False


def strict_apply(affs, c):
    """ir2smt.apply_affs in strict mode, with the one allowance C11 makes: a 1-bit destination may receive a
    wider source (returned as side conditions to discharge)"""
    wide = []
    post_ids = {}
    stores = []
    dup = []
    for a in affs:
        dst = a.dst
        if isinstance(dst, X.ExprId):
            v = ir2smt.tr(a.src, c, want=dst.size)
            if v.size() != dst.size:
                if dst.size == 1 and v.size() > 1:
                    wide.append((dst.name, v))
                else:
                    raise ir2smt.IllTyped('source of %s has %d bits, destination %d' % (dst.name, v.size(), dst.size), a)
            k = (dst.name, dst.size)
            if k in post_ids:
                dup.append(dst.name)
            post_ids[k] = v
        elif isinstance(dst, X.ExprMem):
            ad = ir2smt.tr(dst.arg, c)
            if ad.size() != 32:
                if ad.size() == 16:
                    ad = z3.ZeroExt(16, ad)      # 16-bit addressing: the effective address is 16 bits wide
                else:
                    raise ir2smt.IllTyped('address of %d bits' % ad.size(), dst)
            if not isinstance(dst.size, int) or dst.size % 8 or dst.size <= 0:
                raise ir2smt.IllTyped('store of %r bits' % (dst.size,), dst)
            v = ir2smt.tr(a.src, c, want=dst.size)
            if v.size() != dst.size:
                raise ir2smt.IllTyped('source of a %d-bit store has %d bits' % (dst.size, v.size()), a)
            stores.append((ad, dst.size // 8))
        else:
            raise ir2smt.IllTyped('destination is neither identifier nor memory', a)
    return wide, dup, stores


def mn_class(name):
    return name


def msg_class(msg):
    return msg[:70]


def mode_class(i):
    return 'o%d/a%d' % (16 if i.opmode == E.A.u16 else 32, 16 if i.admode == E.A.u16 else 32)


def run_lift(job, res, tier):
    ejob = job[1]
    prefixes, opc, last, sibmode, rowname = ejob
    title = 'lift %s|%s%s %s' % (' '.join('%02x' % p for p in prefixes), ' '.join('%02x' % b for b in opc), '' if last is None else ' {%02x..}' % last[0], rowname)
    seen = set()

    def on_path(eng, d):
        if d.kind != 'ok':
            return ('SKIP',)
        i = d.instr
        name = i.m.name
        if not (name in SEM.mnemo_func or '#' in name):
            return ('SKIP',)
        reset_singletons()
        wit = lambda: E.witness_bytes(eng, d)[:i.l]
        my_eip = X.ExprInt(M.uint32(i.l))
        try:
            affs = EH.get_instr_expr(i, my_eip, [])
        except PathAbort:
            raise
        except Exception as ex:
            fn, line = c10.crash_site(ex)
            return ('CEX', 'exc:%s:%s:%s:%s' % (type(ex).__name__, fn, line, mn_class(name)), '%s: lifting raises %s: %s' % (name, type(ex).__name__, str(ex)[:70]), wit())
        if not isinstance(affs, (list, tuple)):
            return ('CEX', 'shape:%s' % name, '%s: the lifter returned %s' % (name, type(affs).__name__), wit())
        for a in affs:
            if not isinstance(a, X.ExprAff):
                return ('CEX', 'not-assignment:%s' % name, '%s: element %s is not an assignment' % (name, type(a).__name__), wit())
            if not isinstance(a.dst, (X.ExprId, X.ExprMem)):
                return ('CEX', 'destination:%s' % name, '%s: destination is a %s' % (name, type(a.dst).__name__), wit())
            if has_aff(a.src):
                return ('CEX', 'nested-assignment:%s' % name, '%s: an assignment is used as a value' % name, wit())
        c = ir2smt.Ctx(strict=True, flat=True)
        try:
            wide, dup, stores = strict_apply(affs, c)
        except ir2smt.IllTyped as ex:
            return ('CEX', 'illtyped:%s:%s:%s' % (name, mode_class(i), msg_class(ex.msg)), '%s: %s' % (name, ex.msg), wit())
        except ir2smt.Untranslatable as ex:
            return ('ABORT', 'untranslatable: %s' % ex)
        if dup:
            return ('CEX', 'double-assign:%s:%s' % (name, '+'.join(sorted(set(dup)))), '%s assigns %s twice' % (name, sorted(set(dup))), wit())
        for fname, v in wide:
            st, m = eng.find(z3.UGT(v, 1))
            if st == 'sat':
                return ('CEX', 'flag-not-boolean:%s:%s' % (name, fname), '%s: flag %s receives a %d-bit value that can exceed 1' % (name, fname, v.size()),
                        E.witness_bytes(eng, d, m)[:i.l])
            if st != 'unsat':
                return ('ABORT', 'flag query unknown')
        for x in range(len(stores)):
            for y in range(x + 1, len(stores)):
                (a1, n1), (a2, n2) = stores[x], stores[y]
                st, m = eng.find(z3.Or(z3.ULT(a1 - a2, n2), z3.ULT(a2 - a1, n1)))
                if st == 'sat':
                    return ('CEX', 'overlapping-stores:%s' % name, '%s: two memory destinations can overlap' % name, E.witness_bytes(eng, d, m)[:i.l])
                if st != 'unsat':
                    return ('ABORT', 'store query unknown')
        return ('OK', name)
    eng, rs = E.explore(ejob, on_path, max_paths=60000, max_seconds=600 if tier == 'quick' else 1500)
    res['paths'] += eng.stats['paths']
    res['queries'] += eng.stats['queries']
    res['solver_s'] += eng.stats['solver_s']
    for u in eng.unexplored:
        res['inconclusive'].append('%s: %s' % (title, u))
    ok = 0
    for r in rs:
        if r[0] == 'OK':
            ok += 1
            res['obligations'] += 1
            res['proved'] += 1
        elif r[0] == 'CEX':
            res['obligations'] += 1
            if r[1] in seen:
                continue
            seen.add(r[1])
            res['candidates'].append({'key': r[1], 'desc': r[2] + ' e.g. ' + ' '.join('%02x' % b for b in r[3]),
                                      'data': {'bytes': r[3], 'what': r[1].split(':')[0], 'key': r[1]}})
        elif r[0] == 'SKIP':
            pass
        else:
            res['inconclusive'].append('%s: %s' % (title, r[1] if len(r) > 1 else r[0]))
    if ok:
        res['nontrivial'] += 1
        if len(res['samples']) < 2:
            res['samples'].append({'row': title, 'paths': len(rs), 'verdict': 'lifts to strictly well-typed IR on %d path(s), all immediates symbolic' % ok})


def jobs(tier, seed):
    if E.A is None:
        common.env_setup()
        E.worker_init()
    ps = [(), (0x66,)] if tier == 'quick' else [(), (0x66,), (0x67,), (0x66, 0x67)]
    out = [('lift', ej, tier) for ej in E.make_jobs(tier, seed, prefix_sets=ps, sib='min' if tier == 'quick' else 'reps', per_signature=False)]
    if tier == 'quick':
        # 16-bit address size: every row in the thinnest ModRM slice (pointer registers become 16-bit slices: other widths everywhere)
        out += [('lift', ej, tier) for ej in E.make_jobs(tier, seed, prefix_sets=[(0x67,)], sib='one', per_signature=False)]
        out += [('lift', ej, tier) for ej in E.make_jobs(tier, seed, prefix_sets=[(0x66, 0x67)], sib='one', per_signature=True)]
    return out


def run_job(job):
    res = {'paths': 0, 'queries': 0, 'solver_s': 0.0, 'obligations': 0, 'proved': 0, 'candidates': [],
           'inconclusive': [], 'samples': [], 'programs': 1, 'nontrivial': 0}
    run_lift(job, res, job[2])
    return res


REPLAY = r'''
# replay of a C11 counterexample: decode + lift on the real code, strict typing by vf.ir2smt (exit 1 = violated)
import sys
import z3
from miasmx.arch.ia32_arch import x86mnemo
import miasmx.arch.ia32_sem as SEM
import miasmx.tools.emul_helper as EH
import miasmx.expression.expression as X
import miasmx.tools.modint as M
from vf import ir2smt
from vf.checks import c11
c11.X = X; c11.SEM = SEM
D = %(data)r
data = bytes(D['bytes']); what = D['what']; bad = False
i = x86mnemo.dis(data + b'\x00' * 12)
print(data.hex(), '->', i.m.name, 'l =', i.l)
try:
    affs = EH.get_instr_expr(i, X.ExprInt(M.uint32(i.l)), [])
    for a in affs: print('   ', a)
    if what == 'exc': bad = False
    elif not isinstance(affs, (list, tuple)): bad = True
    else:
        for a in affs:
            if not isinstance(a, X.ExprAff) or not isinstance(a.dst, (X.ExprId, X.ExprMem)) or c11.has_aff(a.src): bad = True
        if not bad:
            c = ir2smt.Ctx(strict=True, flat=True)
            try:
                wide, dup, stores = c11.strict_apply(affs, c)
                if dup: bad = True; print('assigned twice:', dup)
                s = z3.Solver()
                for fn, v in wide:
                    s.push(); s.add(z3.UGT(v, 1))
                    if s.check() == z3.sat: bad = True; print('flag', fn, 'can receive', s.model().eval(v))
                    s.pop()
                for x in range(len(stores)):
                    for y in range(x + 1, len(stores)):
                        (a1, n1), (a2, n2) = stores[x], stores[y]
                        s.push(); s.add(z3.Or(z3.ULT(a1 - a2, n2), z3.ULT(a2 - a1, n1)))
                        if s.check() == z3.sat: bad = True; print('two stores can overlap')
                        s.pop()
            except ir2smt.IllTyped as ex:
                bad = True; print('ill-typed:', ex.msg)
except Exception as ex:
    print('lifting raises', type(ex).__name__, ex); bad = True
print('C11 replay:', 'VIOLATED' if bad else 'holds')
sys.exit(1 if bad else 0)
'''


def make_replay(cnd):
    return REPLAY % {'data': cnd['data']}


def main(argv=None):
    a = common.tier_seed(argv)
    t0 = time.time()
    js = jobs(a.tier, a.seed)
    if a.only:
        js = [j for j in js if a.only in repr(j)]
    results, left = common.run_pool('vf.checks.c11', js, nproc=a.nproc, budget_s=1800 if a.tier == 'quick' else 7200)
    cov, cands, inconc, herr = c05.aggregate(results, left)
    cov['exhaustive'] = False
    cov['rule'] = 'a program = one (prefix set, opcode row of the live trie); non-trivial = at least one path lifted and proved well-typed'
    cov['functions_encoded'] = ['tools.emul_helper:get_instr_expr/get_instr_expr_args', 'arch.ia32_sem:dict_to_Expr, mnemo_func[*] (every semantic function reached), MMXnoflags/MMXflags/MMXkill',
                                'expression.expression:ExprAff.__init__ (slice destination rewrite)', 'arch.ia32_arch:x86_mn._dis (to produce the descriptors)']
    cov['bounds'] = ('all rows of the live opcode trie x prefix sets %s; 11 symbolic bytes; ModRM/SIB space: %s; immediates and displacements symbolic through the lifter' %
                     ('none/66' if a.tier == 'quick' else 'none/66/67/66 67', 'thin slice (every reg value, 8 rm/SIB forms)' if a.tier == 'quick' else 'all ModRM, 8 SIB representatives'))
    if cov['proved'] == 0:
        herr.append('vacuous: nothing proved')
    assumptions = ['width discipline = strict mode of vf/ir2smt.py (DESIGN section 4)', 'flat segments', 'z3 5.1.0', 'proxies']
    return common.finish(PROP, a.tier, a.seed, 'model_checking', t0, cov, assumptions, cands, herr, inconc, make_replay)


if __name__ == '__main__':
    sys.exit(main())
