"""C10, assembler part: on arbitrary token sequences the assembler returns a list or raises its documented
ValueError - nothing else.  Lines are generated from the assembler's lexical alphabet (mnemonics, registers,
size keywords, punctuation, numbers, names) up to 3 operand tokens (+ a fixed first operand), go through the
real public API as text, every number symbolic (so the outcome is decided for all number values per path)."""
import itertools
import random

from vf.symex import core
from vf.symex.core import SInt, Engine, PathAbort
from vf.x86 import explore as E
from vf.x86 import asmdrive as AD

ALPHABET = ['eax', 'bx', 'cl', 'es', 'st', 'st(1)', 'mm1', 'xmm2', 'cr0', 'BYTE', 'DWORD', 'QWORD', 'PTR', '[', ']', '+', '-', '*', ':', '(', ')',
            '{N}', 'foo', '%', 'OFFSET', 'FLAT', '.', '$', '4']
MNEMOS = ['mov', 'push', 'pop', 'lea', 'jmp', 'call', 'fadd', 'fld', 'shl', 'movq', 'in', 'out', 'int', 'imul', 'test', 'xchg', 'ret', 'enter',
          'pextrw', 'shld', 'nosuchmnemonic', 'rep', 'lock', 'cmpsd', 'movsd', 'fnstsw', 'aam', 'lfence']


def worker_init():
    AD.worker_init()


def lines(tier, seed):
    rnd = random.Random(seed)
    seqs = [()]
    for n in (1, 2):
        seqs += list(itertools.product(ALPHABET, repeat=n))
    s3 = list(itertools.product(ALPHABET, repeat=3))
    if tier == 'quick':
        rnd.shuffle(s3)
        s3 = s3[:1500]
    seqs += s3
    out = []
    mn = MNEMOS if tier == 'thorough' else MNEMOS[:14]
    for m in mn:
        for s in seqs:
            out.append(m + ' ' + ' '.join(s))
        for s in seqs[:1 + len(ALPHABET) + len(ALPHABET) ** 2]:
            out.append(m + ' eax , ' + ' '.join(s))
            out.append(m + ' ' + ' '.join(s) + ' , eax')
            out.append(m + ' DWORD PTR [ ebx + {N} ] , ' + ' '.join(s))
        # narrower first operands (16- and 8-bit forms take other encoding paths)
        for s in seqs[:1 + len(ALPHABET)] if tier == 'quick' else seqs[:1 + len(ALPHABET) + len(ALPHABET) ** 2]:
            out.append(m + ' bx , ' + ' '.join(s))
            out.append(m + ' cl , ' + ' '.join(s))
            out.append(m + ' WORD PTR [ ebx ] , ' + ' '.join(s))
            out.append(m + ' bx , cx , ' + ' '.join(s))
    # missing / surplus operands and separators
    for m in mn:
        out += [m, m + ' ,', m + ' eax ,', m + ' , eax', m + ' eax , ebx , ecx , edx', m + ' eax eax']
    return out


MEM_TERMS = ['eax', 'ebx', 'esp', 'bx', '{N}', '4', 'foo', 'eax * 4', 'ebx * {N}', '2 * ecx']
MEM_CONTEXTS = ['mov eax , [ %s ]', 'lea eax , [ %s ]', 'mov DWORD PTR [ %s ] , eax', 'push DWORD PTR [ %s ]', 'mov al , BYTE PTR es : [ %s ]',
                'fld QWORD PTR [ %s ]', 'jmp [ %s ]', 'mov eax , foo [ %s ]']


def mem_lines(tier, seed):
    """address expressions: 1 to 3 terms (registers, scaled registers, numbers, names) joined by + and -, in the contexts
    where an address is accepted - longer than the free token sequences reach"""
    rnd = random.Random(seed + 7)
    exprs = list(MEM_TERMS)
    for a, b in itertools.product(MEM_TERMS, repeat=2):
        for o in '+-':
            exprs.append('%s %s %s' % (a, o, b))
    e3 = []
    for a, b, c in itertools.product(MEM_TERMS, repeat=3):
        for o1, o2 in itertools.product('+-', repeat=2):
            e3.append('%s %s %s %s %s' % (a, o1, b, o2, c))
    out = []
    for ci, ctx in enumerate(MEM_CONTEXTS if tier == 'thorough' else MEM_CONTEXTS[:4]):
        es = list(exprs)
        if tier == 'quick':
            r3 = list(e3)
            rnd.shuffle(r3)
            es = (es if ci < 2 else es[:len(MEM_TERMS)]) + r3[:700 if ci < 2 else 150]
        else:
            es += e3
        out += [ctx % e for e in es]
    return out


def jobs(tier, seed):
    ls = lines(tier, seed) + mem_lines(tier, seed)
    random.Random(seed).shuffle(ls)
    n = 800
    return [('asmtot', tier, ls[i:i + n]) for i in range(0, len(ls), n)]


def run(job, res):
    from vf.checks import c10
    _, tier, ls = job
    seen = set()
    for tmpl0 in ls:
        tmpl, k = AD.fill(tmpl0)
        res['programs'] = res.get('programs', 0) + 1
        if k == 0:
            # no number: one concrete run
            try:
                r = E.A.x86mnemo.asm(tmpl)
                ok = isinstance(r, (list, tuple))
            except ValueError:
                ok = True
            except Exception as ex:
                ok = False
                key = c10.exc_key('asm', ex)
                if key not in seen:
                    seen.add(key)
                    res['candidates'].append({'key': key, 'desc': 'asm(%r) raises %s: %s' % (tmpl, type(ex).__name__, str(ex)[:60]),
                                              'data': {'kind': 'asm', 'tmpl': tmpl, 'vals': [], 'exc': type(ex).__name__}})
            res['obligations'] += 1
            if ok:
                res['proved'] += 1
            continue
        eng = Engine(width=72, timeout_ms=10000, max_paths=300, max_seconds=30)

        def fn(eng):
            syms = [SInt.var('n%d' % j, 0, (1 << 32) - 1) for j in range(k)]
            try:
                r = AD.asm(tmpl, syms)
                return ('OK',)
            except PathAbort:
                raise
            except ValueError:
                return ('OK',)
            except Exception as ex:
                return ('CEX', c10.exc_key('asm', ex), type(ex).__name__, str(ex)[:60], eng.model_inputs(eng.witness()))
        rs = eng.explore(fn)
        res['paths'] += eng.stats['paths']
        res['queries'] += eng.stats['queries']
        res['solver_s'] += eng.stats['solver_s']
        for u in eng.unexplored:
            res['inconclusive'].append('asm(%r): %s' % (tmpl, u))
        for r in rs:
            if r[0] == 'OK':
                res['obligations'] += 1
                res['proved'] += 1
            elif r[0] == 'CEX':
                res['obligations'] += 1
                if r[1] not in seen:
                    seen.add(r[1])
                    res['candidates'].append({'key': r[1], 'desc': 'asm(%r) raises %s: %s with %s' % (tmpl, r[2], r[3], r[4]),
                                              'data': {'kind': 'asm', 'tmpl': tmpl, 'vals': [r[4].get('n%d' % j, 0) for j in range(k)], 'exc': r[2]}})
            elif r[0] == 'ABORT':
                pass
    res['nontrivial'] += 1
    if len(res['samples']) < 1:
        res['samples'].append({'lines': len(ls), 'example': ls[0], 'verdict': 'every line yields a list or the documented ValueError on every path'})


REPLAY = r'''
# replay of a C10 assembler counterexample on the real assembler (exit 1 = an internal error escapes)
import sys
from miasmx.arch.ia32_arch import x86mnemo
D = %(data)r
line = D['tmpl'].format(*D['vals']); bad = False
try:
    r = x86mnemo.asm(line); print(repr(line), '->', r)
except ValueError as ex:
    print(repr(line), 'raises the documented ValueError:', str(ex)[:80])
except Exception as ex:
    print(repr(line), 'raises', type(ex).__name__, ex); bad = True
print('C10 replay:', 'VIOLATED' if bad else 'holds')
sys.exit(1 if bad else 0)
'''


def make_replay(cnd):
    return REPLAY % {'data': cnd['data']}
