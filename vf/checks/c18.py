"""C18 - PowerPC words decode unambiguously and re-encode to themselves.

The whole 32-bit word is one symbolic integer; E2 runs the real class matcher, decoder and encoder of
miasmx.arch.ppc_arch on it.  Solver-decided for every word: at most one class; bin() == word; the
opcode fields are constant on each path.  Witness level (stated as such): mnemonic vs llvm-mc, text
render -> assemble fixpoint at the smallest and largest word of each path.
"""
import contextlib
import io
import os
import re
import struct
import subprocess
import sys
import time

import z3

from vf import common
from vf.symex import core, instr
from vf.symex.core import SInt, Engine, PathAbort, bvv

PROP = 'C18'


def worker_init():
    instr.install()
    global P
    import miasmx.arch.ppc_arch as P


def jobs(tier, seed):
    # every primary opcode in both tiers (a sample of opcodes would miss a class-specific defect; the dense opcodes 19, 31, 59, 63
    # dominate the time anyway) - longest first
    ops = [31, 19, 63, 59] + [o for o in range(64) if o not in (31, 19, 63, 59)]
    return [('op', o, tier) for o in ops]


def _extreme(eng, t, lo_first=True):
    """smallest (or largest) value of 32-bit quantity t under the path condition, by bit descent"""
    val = 0
    s = eng.s
    s.push()
    try:
        for b in range(31, -1, -1):
            bit = z3.Extract(b, b, t)
            want = 0 if lo_first else 1
            r = eng._check(bit == want)
            if r == 'sat':
                s.add(bit == want)
                val |= want << b
            elif r == 'unsat':
                s.add(bit == 1 - want)
                val |= (1 - want) << b
            else:
                return None
    finally:
        s.pop()
    return val


def _concrete_text(w):
    """decode / render / assemble on a concrete word (same code, concrete values)"""
    try:
        i = P.ppc_mn(w)
    except Exception as e:
        return ('decode-exc', type(e).__name__, str(e)[:60], None)
    try:
        s = str(i)
    except Exception as e:
        return ('render-exc', type(e).__name__, _norm(str(e)), None)
    try:
        with contextlib.redirect_stdout(io.StringIO()):
            b = P.ppc_mn.asm(s)
        w2 = struct.unpack('>L', b[0])[0]
    except Exception as e:
        return ('asm-exc', type(e).__name__, _norm(str(e)), s)
    if w2 != w:
        return ('diff', '', '', s)
    return ('ok', '', '', s)


def _norm(msg):
    msg = re.sub(r'0x[0-9a-fA-F]+|\d+', 'N', msg)
    msg = re.sub(r'<[^>]*>', '<>', msg)
    return msg[:50]


def run_job(job):
    _, opc, tier = job
    res = {'paths': 0, 'queries': 0, 'solver_s': 0.0, 'obligations': 0, 'proved': 0, 'candidates': [],
           'inconclusive': [], 'samples': [], 'decodable': 0, 'undecodable': 0, 'names': [], 'text_checked': 0}
    eng = Engine(width=40, timeout_ms=20000, max_paths=100000, max_seconds=1500)
    wvar = [None]

    def fn(eng):
        w = SInt.var('w', 0, (1 << 32) - 1)
        eng.assume(z3.Extract(31, 26, w.t) == opc)
        wt = z3.Extract(31, 0, w.t)
        cls = [x for x in P.tab_mn if x.check(w)]
        if len(cls) > 1:
            m = eng.witness()
            return ('CEX', 'ambiguity:' + '+'.join(sorted(c.__name__ for c in cls)),
                    'word claimed by %d classes' % len(cls), eng.model_inputs(m)['w'])
        if not cls:
            return ('NONE',)
        c = cls[0]
        # the public constructor must agree with the matcher
        i = c.__new__(c)
        i.__init__(w, 0)
        b = i.bin()
        st, m = eng.find(core.term_of(b) != w.t)
        if st == 'sat':
            return ('CEX', 'reencode:' + c.__name__, 'bin() differs from the decoded word', eng.model_inputs(m)['w'])
        if st != 'unsat':
            return ('UNKNOWN', 'reencode')
        try:
            name = i.getname()
        except PathAbort:
            raise
        except Exception as e:
            wit = eng.model_inputs(eng.witness())['w']     # witness of *this* path (after its last fork)
            return ('CEX', 'render:%s:%s' % (c.__name__, type(e).__name__),
                    'decodes but cannot be named/rendered: %s' % type(e).__name__, wit)
        wit = eng.model_inputs(eng.witness())['w']
        lo = _extreme(eng, wt, True)
        hi = _extreme(eng, wt, False)
        return ('OK', c.__name__, name, wit, lo, hi)

    rs = eng.explore(fn)
    res['paths'] = eng.stats['paths']
    res['queries'] = eng.stats['queries']
    res['solver_s'] = eng.stats['solver_s']
    for u in eng.unexplored:
        res['inconclusive'].append('opcode %d: %s' % (opc, u))
    seen_text = set()
    for r in rs:
        if r[0] == 'ABORT' or r[0] == 'UNKNOWN':
            res['inconclusive'].append('opcode %d: %s' % (opc, r[1]))
            continue
        if r[0] == 'EXC':
            res['inconclusive'].append('opcode %d: %r' % (opc, r[1]))
            continue
        res['obligations'] += 1
        if r[0] == 'NONE':
            res['undecodable'] += 1
            res['proved'] += 1          # at most one class: zero
            continue
        if r[0] == 'CEX':
            res['candidates'].append({'key': r[1], 'desc': r[2], 'data': {'w': r[3], 'kind': r[1].split(':')[0]}})
            continue
        _, cname, name, wit, lo, hi = r
        res['decodable'] += 1
        res['proved'] += 1
        res['names'].append((wit, cname, name))
        if len(res['samples']) < 3:
            res['samples'].append({'class': cname, 'name': name, 'witness': '0x%08x' % wit,
                                   'path_min': '0x%08x' % lo if lo is not None else None,
                                   'path_max': '0x%08x' % hi if hi is not None else None,
                                   'verdict': 'unique class, bin()==w for every word of the path (unsat)'})
        # text fixpoint at deterministic witnesses (smallest / largest word of the path)
        for wv in (lo, hi):
            if wv is None:
                continue
            res['text_checked'] += 1
            kind, et, msg, txt = _concrete_text(wv)
            if kind == 'ok':
                continue
            key = 'text:%s:%s:%s%s' % (cname, name, kind, (':' + et + ':' + msg) if et else '')
            if key in seen_text:
                continue
            seen_text.add(key)
            res['candidates'].append({'key': key, 'desc': 'render/assemble fixpoint fails for 0x%08x (%s)' % (wv, txt),
                                      'data': {'w': wv, 'kind': 'text', 'fail': kind, 'et': et, 'msg': msg}})
    # text fixpoint, field sweep (witness level): from the smallest word of a path, every variable field of the class takes every
    # one of its values once (fields of <= 10 bits: register / condition / special-register numbers index name tables whose
    # entries can collide or be missing for single values); one sweep per (class, field)
    swept = set()
    for r in rs:
        if r[0] != 'OK' or r[4] is None:
            continue
        _, cname, name, wit, lo, hi = r
        cls = [x for x in P.tab_mn if x.__name__ == cname]
        if not cls:
            continue
        off = 32
        for fi, m in enumerate(cls[0].mask_orig):
            try:
                mc = m(None, off)
                l = mc.l
            except Exception:
                break
            off -= l
            if getattr(mc, 'fmask', 0) or l > 10 or (cname, fi) in swept:
                continue
            swept.add((cname, fi))
            for v in range(1 << l):
                wv = (lo & ~(((1 << l) - 1) << off)) | (v << off)
                if wv == lo:
                    continue
                try:
                    ok_cls = [x.__name__ for x in P.tab_mn if x.check(wv)] == [cname]
                except Exception:
                    ok_cls = False
                if not ok_cls:
                    continue
                res['text_checked'] += 1
                kind, et, msg, txt = _concrete_text(wv)
                if kind == 'ok':
                    continue
                key = 'text:%s:%s:%s%s' % (cname, name, kind, (':' + et + ':' + msg) if et else '')
                if key in seen_text:
                    continue
                seen_text.add(key)
                res['candidates'].append({'key': key, 'desc': 'render/assemble fixpoint fails for 0x%08x (%s) [field %d of the class = %d]' % (wv, txt, fi, v),
                                          'data': {'w': wv, 'kind': 'text', 'fail': kind, 'et': et, 'msg': msg}})
    return res


REPLAY = r'''
# replay of a C18 counterexample on the real miasmx.arch.ppc_arch (exit 1 = property violated)
import sys, io, contextlib, struct, re
from miasmx.arch.ppc_arch import ppc_mn, tab_mn
D = %(data)r
w = D['w']; bad = False; why = ''
def norm(msg):
    msg = re.sub(r'0x[0-9a-fA-F]+|\d+', 'N', msg); msg = re.sub(r'<[^>]*>', '<>', msg); return msg[:50]
cls = [x for x in tab_mn if x.check(w)]
if D['kind'] == 'ambiguity':
    bad = len(cls) > 1; why = 'classes %%s' %% [c.__name__ for c in cls]
elif D['kind'] == 'reencode':
    i = ppc_mn(w); bad = i.bin() != w; why = 'bin()=%%#x' %% i.bin()
elif D['kind'] == 'render':
    i = ppc_mn(w)
    try: str(i)
    except Exception as e: bad = True; why = 'str() raises %%s: %%s' %% (type(e).__name__, e)
elif D['kind'] == 'text':
    i = ppc_mn(w)
    try:
        s = str(i); stage = 'asm'
        with contextlib.redirect_stdout(io.StringIO()):
            w2 = struct.unpack('>L', ppc_mn.asm(s)[0])[0]
        bad = w2 != w; why = '%%s -> %%#x' %% (s, w2)
        if D['fail'] != 'diff': bad = False      # a different failure than the recorded one
    except Exception as e:
        why = '%%s: %%s' %% (type(e).__name__, e)
        bad = D['fail'].endswith('-exc') and type(e).__name__ == D['et'] and norm(str(e)) == D['msg']
elif D['kind'] == 'name':
    i = ppc_mn(w); bad = i.getname() == D['name']; why = 'getname()=%%s, reference %%s' %% (i.getname(), D['ref'])
print('C18 replay w=%%#010x %%s: %%s' %% (w, why, 'VIOLATED' if bad else 'holds'))
sys.exit(1 if bad else 0)
'''


def make_replay(cnd):
    return REPLAY % {'data': cnd['data']}


# -------------------------------------------------------------------------------------------------
# mnemonic cross-check against llvm-mc at the path witnesses (main process, one batch)
# -------------------------------------------------------------------------------------------------
ALIASES = {
    # llvm simplified mnemonics -> architectural base mnemonic
    'li': 'addi', 'lis': 'addis', 'nop': 'ori', 'mr': 'or', 'not': 'nor', 'blr': 'bclr', 'bctr': 'bcctr',
    'blrl': 'bclrl', 'bctrl': 'bcctrl', 'mflr': 'mfspr', 'mtlr': 'mtspr', 'mfctr': 'mfspr', 'mtctr': 'mtspr',
    'mfxer': 'mfspr', 'mtxer': 'mtspr', 'slwi': 'rlwinm', 'srwi': 'rlwinm', 'clrlwi': 'rlwinm', 'rotlwi': 'rlwinm',
    'rotlw': 'rlwnm', 'cmpwi': 'cmpi', 'cmplwi': 'cmpli', 'cmpw': 'cmp', 'cmplw': 'cmpl', 'cmpdi': 'cmpi',
    'cmpldi': 'cmpli', 'cmpd': 'cmp', 'cmpld': 'cmpl', 'subi': 'addi', 'subis': 'addis', 'crset': 'creqv',
    'crclr': 'crxor', 'crmove': 'cror', 'crnot': 'crnor', 'trap': 'tw', 'mtcr': 'mtcrf', 'xnop': 'xori',
    'sub': 'subf', 'subc': 'subfc', 'mfsprg': 'mfspr', 'mtsprg': 'mtspr', 'mfsrr0': 'mfspr', 'mfsrr1': 'mfspr', 'mtsrr0': 'mtspr', 'mtsrr1': 'mtspr',
}


def llvm_names(words):
    """word -> llvm-mc mnemonic (None when llvm-mc rejects the word)"""
    out = {}
    exe = 'llvm-mc' if _which('llvm-mc') else 'llvm-mc-14'
    for k in range(0, len(words), 2000):
        chunk = words[k:k + 2000]
        txt = '\n'.join(' '.join('0x%02x' % b for b in struct.pack('>L', w)) for w in chunk) + '\n'
        p = subprocess.run([exe, '--disassemble', '-triple=powerpc', '--show-encoding'], input=txt,
                           capture_output=True, text=True)
        # llvm-mc prints one line per decoded instruction with its encoding; invalid ones go to stderr
        for line in p.stdout.splitlines():
            m = re.match(r'^\s+(\S+)\s*(.*?)\s*#\s*encoding:\s*\[(.*)\]', line)
            if not m:
                continue
            enc = [int(x, 16) for x in m.group(3).split(',')]
            w = struct.unpack('>L', bytes(enc))[0]
            out[w] = m.group(1)
    return out


def _which(x):
    import shutil
    return shutil.which(x)


def norm_miasm(name):
    n = name.lower()
    return n


def _base(n):
    n = n.lower()
    dot = n.endswith('.')
    n = n.rstrip('.')
    n = re.sub(r'[+-]$', '', n)
    n = ALIASES.get(n, n)
    return n + ('.' if dot else '')


def _branch_family(n):
    """conditional-branch simplified mnemonics (blt, bdnz, bnelr, bgectrl, ...) -> bc / bclr / bcctr (+l, +a)"""
    n = n.rstrip('.')
    # miasmX spells the conditional forms of bclr/bcctr as BLR<cond> / BCTR<cond> [L]
    m = re.match(r'^b(lr|ctr)(dnz|dz|lt|le|eq|ge|gt|ne|so|ns)?(l)?$', n)
    if m:
        return 'bc' + m.group(1) + (m.group(3) or '')
    m = re.match(r'^b(c|dnz|dz|lt|le|eq|ge|gt|nl|ne|ng|so|ns|un|nu)?(t|f)?(lr|ctr)?(l)?(a)?$', n)
    if not m or n in ('b', 'bl', 'ba', 'bla'):
        return None
    return 'bc' + (m.group(3) or '') + (m.group(4) or '') + (m.group(5) or '')


def name_agrees(miasm_name, llvm_name):
    a, b = _base(miasm_name), _base(llvm_name)
    if a == b:
        return True
    fa, fb = _branch_family(a), _branch_family(b)
    if fa is not None and fa == fb:
        return True
    return False


def main(argv=None):
    a = common.tier_seed(argv)
    t0 = time.time()
    js = jobs(a.tier, a.seed)
    if a.only:
        js = [j for j in js if a.only in repr(j)]
    results, left = common.run_pool('vf.checks.c18', js, nproc=a.nproc, budget_s=1200 if a.tier == 'quick' else 3000)
    cov = dict(states=0, transitions=0, obligations=0, proved=0, samples=[], solver_s=0.0,
               decodable_paths=0, undecodable_paths=0, text_witnesses=0)
    cands, inconc, herr, names = [], list(left), [], []
    for r in results:
        if 'harness_error' in r:
            herr.append(r['harness_error'][-1500:])
            continue
        cov['states'] += r['paths']
        cov['transitions'] += r['queries']
        cov['obligations'] += r['obligations']
        cov['proved'] += r['proved']
        cov['solver_s'] += r['solver_s']
        cov['decodable_paths'] += r['decodable']
        cov['undecodable_paths'] += r['undecodable']
        cov['text_witnesses'] += r['text_checked']
        cands += r['candidates']
        inconc += r['inconclusive']
        names += r['names']
        if len(cov['samples']) < 10:
            cov['samples'] += r['samples'][:1]
    # mnemonic table clause at witnesses
    ln = llvm_names([w for w, _, _ in names]) if names else {}
    agree = dis = skipped = 0
    seen = set()
    for w, cname, name in names:
        l = ln.get(w)
        if l is None:
            skipped += 1
            continue
        if name_agrees(name, l):
            agree += 1
        else:
            dis += 1
            key = 'name:%s:%s:%s' % (cname, name, l)
            if key not in seen:
                seen.add(key)
                cands.append({'key': key, 'desc': 'miasmX names 0x%08x %s, llvm-mc %s' % (w, name, l),
                              'data': {'w': w, 'kind': 'name', 'name': name, 'ref': l}})
    cov['mnemonic_witnesses'] = {'agree': agree, 'disagree': dis, 'rejected_by_llvm_mc': skipped}
    cov['solver_s'] = round(cov['solver_s'], 2)
    cov['primary_opcodes'] = [j[1] for j in js]
    cov['exhaustive'] = (a.tier == 'thorough' and not inconc)
    cov['functions_encoded'] = ['miasmx.arch.ppc_arch:ppc_mnemo_metaclass.check', 'bm.check_fbits/check_fbits_inv/get_val/set_val/parse/bin',
                                'ppc_mn.__init__ (dis=True)', 'ppc_mn.bin', 'getname/name2str/oe2str/rc2str of every class reached']
    cov['bounds'] = ('the full 32-bit word symbolic per primary opcode (%d of 64 primary opcodes in this tier); '
                     'text and mnemonic clauses at witnesses only (smallest/largest word of each path; text clause also with every variable field of <= 10 bits of every class swept over all its values from the smallest word of a path)' % len(js))
    if cov['decodable_paths'] == 0:
        herr.append('vacuous: no decodable path')
    assumptions = ['llvm-mc 14 (-triple=powerpc) as arbiter of the mnemonic at witness words; alias table in vf/checks/c18.py',
                   'text clause decided at the smallest and largest word of each path, not for every word',
                   'z3 5.1.0; SInt proxy']
    return common.finish(PROP, a.tier, a.seed, 'model_checking', t0, cov, assumptions, cands, herr, inconc, make_replay)


if __name__ == '__main__':
    sys.exit(main())
