"""C06 - symbolic evaluation is sound substitution.

E2 runs the real eval_abs.eval_expr on expressions whose constants are symbolic, in machine states
that bind identifiers / same-address memory cells to symbolic constants, to other expressions, or not
at all.  Assertion per path (E1): value(result) == value(reference substitution of the bindings into e)
for all valuations of the free symbols and all constants; all-constant inputs must give a constant.
"""
import itertools
import random
import sys
import time

import z3

from vf import common, ir2smt
from vf.gen import shapes as G
from vf.symex import core, instr
from vf.symex.core import SInt, Engine, PathAbort
from vf.checks import c05, c13

PROP = 'C06'
CHUNK = 30
LIFTER_OPS2 = ['umul32_lo', 'umul32_hi', 'imul32_lo', 'imul32_hi', 'umul16_lo', 'umul16_hi', 'imul16_lo', 'imul16_hi',
               'umul08', 'imul08', 'bsf', 'bsr', '!']
LIFTER_OPS3 = ['div32', 'rem32', 'idiv32', 'irem32', 'div16', 'rem16', 'div8', 'rem8', '<<<c_rez', '<<<c_cf', '>>>c_rez', '>>>c_cf']
DOCUMENTED = ("div by 0", "Divide Error")


def worker_init():
    c13.worker_init()
    global X, H, M, EA
    X, H, M = c05.X, c05.H, c05.M
    import miasmx.expression.expression_eval_abstract as EA


# -------------------------------------------------------------------------------------------------
def ids_of(s, acc=None):
    if acc is None:
        acc = []
    k = s[0]
    if k == 'id':
        if (s[1], s[2]) not in acc:
            acc.append((s[1], s[2]))
    elif k == 'mem':
        ids_of(s[1], acc)
    elif k == 'op':
        for x in s[2]:
            ids_of(x, acc)
    elif k == 'cond':
        for x in s[1:]:
            ids_of(x, acc)
    elif k == 'slice':
        ids_of(s[1], acc)
    elif k == 'compose':
        for x in s[1]:
            ids_of(x[0], acc)
    return acc


def mems_of(s, acc=None):
    if acc is None:
        acc = []
    k = s[0]
    if k == 'mem':
        if s not in acc:
            acc.append(s)
        mems_of(s[1], acc)
    elif k == 'op':
        for x in s[2]:
            mems_of(x, acc)
    elif k == 'cond':
        for x in s[1:]:
            mems_of(x, acc)
    elif k == 'slice':
        mems_of(s[1], acc)
    elif k == 'compose':
        for x in s[1]:
            mems_of(x[0], acc)
    return acc


def cases(tier, seed):
    """(shape, binding-kinds) ; binding kind per identifier: 'c' constant, 'e' expression, 'i' other id, 'q' conditional with constant arms, '-' absent;
    memory cells of the shape: 'c' / 'e' / '-'"""
    rnd = random.Random(seed)
    out = []
    widths = [32, 8, 64, 16] if tier == 'quick' else [32, 8, 16, 64]
    for n in widths:
        # quick tier at 16 / 64 bits: only the n-ary arithmetic shapes (constants folded with partly symbolic operands)
        narrow = tier == 'quick' and n in (16, 64)
        sh = [] if narrow else G.rule_templates(n) + G.depth1(n, rich=True)
        a, b, c = ('id', 'a', n), ('id', 'b', n), ('id', 'c', n)
        K = ('int', 0, n)
        if n in (8, 16, 32) and not narrow:
            for op in LIFTER_OPS2:
                if ('16' in op and n != 16) or ('32' in op and n != 32) or ('08' in op and n != 16):
                    if op not in ('bsf', 'bsr', '!'):
                        continue
                if op in ('bsf', 'bsr'):
                    sh.append(('op', op, (a,)))       # the arity the lifter emits
                if op == '!':
                    sh.append(('op', op, (a,)))
                else:
                    sh.append(('op', op, (a, b)))
                    sh.append(('op', op, (a, K)))
            for op in LIFTER_OPS3:
                if ('32' in op and n != 32) or ('16' in op and n != 16) or (op.endswith('8') and n != 8):
                    continue
                third = ('id', 'f', 1) if 'c_' in op else c
                sh.append(('op', op, (a, b, third)))
        # n-ary and nested arithmetic with several constants
        for op in G.ASSOC:
            sh.append(('op', op, (a, b, c)))
            sh.append(('op', op, (a, b, c, K)))
            sh.append(('op', op, (a, ('op', op, (b, c)))))
            if narrow:
                sh.append(('op', op, (a, K)))
                sh.append(('op', op, (a, b)))
        if n >= 8 and not narrow:
            p = ('id', 'p', 32)
            sh.append(('op', '+', (('mem', p, n), a)))
            sh.append(('mem', ('op', '+', (p, ('int', 0, 32))), n))
            sh.append(('cond', ('mem', p, n), a, b))
            sh.append(('op', '^', (('mem', p, n), ('mem', p, n), a)))
            if n >= 16:
                sh.append(('slice', ('mem', p, n), 0, n // 2))
        sh = [G.renumber(s) for s in sh]
        sh = [s for s in dict.fromkeys(sh) if all(sz in G.WIDTHS for _, sz in G.ints_of(s)) and _std_widths(s)]
        if tier == 'quick' and n != 32:
            rnd.shuffle(sh)
            sh = sh[:150]
        for s in sh:
            ids = ids_of(s)
            mems = mems_of(s)
            kinds = []
            kinds.append(('c',) * len(ids))                    # every input constant
            kinds.append(('-',) * len(ids))                    # nothing bound
            if ids:
                kinds.append(tuple('ce-i'[(i) % 4] for i in range(len(ids))))
                kinds.append(tuple('e-ci'[(i) % 4] for i in range(len(ids))))
                if n == 32 or tier == 'thorough':
                    kinds.append(tuple('qce-'[(i) % 4] for i in range(len(ids))))
                    kinds.append(tuple('cq-e'[(i) % 4] for i in range(len(ids))))
            if tier == 'thorough' and len(ids) >= 2:
                kinds.append(tuple('ic-e'[(i) % 4] for i in range(len(ids))))
                kinds.append(tuple('-iec'[(i) % 4] for i in range(len(ids))))
            for kd in dict.fromkeys(kinds):
                mks = ['-'] if not mems else (['c', '-', 'e'] if kd == kinds[0] or tier == 'thorough' else ['c'])
                for mk in mks:
                    out.append((s, kd, mk))
    return out


def _std_widths(s):
    """every sub-expression has one of the property's widths (1, 8, 16, 32, 64)"""
    if G.width(s) not in G.WIDTHS:
        return False
    k = s[0]
    if k == 'mem':
        return _std_widths(s[1])
    if k == 'op':
        return all(_std_widths(x) for x in s[2])
    if k == 'cond':
        return all(_std_widths(x) for x in s[1:])
    if k == 'slice':
        return _std_widths(s[1])
    if k == 'compose':
        return all(_std_widths(x[0]) and (x[2] - x[1]) in G.WIDTHS for x in s[1])
    return True


def make_state(shape, kinds, memkind, consts_next):
    """-> (bindings for eval_abs, reference substitution dict)"""
    UC = {1: M.uint1, 8: M.uint8, 16: M.uint16, 32: M.uint32, 64: M.uint64}
    ids = ids_of(shape)
    binds = {}
    for (nm, sz), kd in zip(ids, kinds):
        key = X.ExprId(nm, sz)
        if kd == '-':
            continue
        if kd == 'c' and sz in UC:
            v = SInt.var('b_%s' % nm, 0, (1 << sz) - 1)
            binds[key] = X.ExprInt(UC[sz](v))
        elif kd == 'e' and sz in UC:
            binds[key] = X.ExprOp('+', X.ExprId('u_' + nm, sz), X.ExprInt(UC[sz](SInt.var('bk_%s' % nm, 0, (1 << sz) - 1))))
        elif kd == 'i':
            binds[key] = X.ExprId('v_' + nm, sz)
        elif kd == 'q' and sz in UC:
            # a conditional with two symbolic constant arms (what a flag computed by an earlier test looks like, with arbitrary arms)
            binds[key] = X.ExprCond(X.ExprId('w_' + nm, sz), X.ExprInt(UC[sz](SInt.var('q1_%s' % nm, 0, (1 << sz) - 1))),
                                    X.ExprInt(UC[sz](SInt.var('q2_%s' % nm, 0, (1 << sz) - 1))))
    return binds


class MayAlias(Exception):
    pass


def ref_subst(e, binds, membinds, decide):
    """reference: simultaneous substitution of bound identifiers, then exact-address memory lookup (bottom-up)"""
    if isinstance(e, X.ExprInt):
        return e
    if isinstance(e, X.ExprId):
        for k, v in binds.items():
            if k.name == e.name and k.size == e.size:
                return v
        return e
    if isinstance(e, X.ExprMem):
        a = ref_subst(e.arg, binds, membinds, decide)
        ne = X.ExprMem(a, e.size)
        for (ka, ksz), v in membinds:
            # same cell <=> the addresses are equal for every valuation (decided semantically, E1)
            cc = ir2smt.Ctx(strict=False)
            ta = cc.fit(ir2smt.tr(a, cc), 32, 'address')
            tk = cc.fit(ir2smt.tr(ka, cc), 32, 'address')
            if decide(ta == tk):
                if ksz != e.size:
                    raise MayAlias('bound cell of another width at the same address')
                return v
            if not decide(ta != tk):
                raise MayAlias('address may or may not coincide with a bound cell')
            # never the same address: may still overlap a wider cell -> outside C06 (C07)
            if ksz > 8 or e.size > 8:
                lo = decide(z3.Or(z3.UGE(ta - tk, z3.BitVecVal(ksz // 8, 32)), False)) and decide(z3.UGE(tk - ta, z3.BitVecVal(e.size // 8, 32)))
                if not lo:
                    raise MayAlias('possible partial overlap')
        return ne
    if isinstance(e, X.ExprOp):
        return X.ExprOp(e.op, *[ref_subst(a, binds, membinds, decide) for a in e.args])
    if isinstance(e, X.ExprCond):
        return X.ExprCond(*[ref_subst(a, binds, membinds, decide) for a in (e.cond, e.src1, e.src2)])
    if isinstance(e, X.ExprSlice):
        return X.ExprSlice(ref_subst(e.arg, binds, membinds, decide), e.start, e.stop)
    if isinstance(e, X.ExprCompose):
        return X.ExprCompose([(ref_subst(a[0], binds, membinds, decide), a[1], a[2]) for a in e.args])
    raise ValueError(e)


def op_class(shape):
    return c05.rule_class(shape)


def faults(t_ctx):
    """side conditions under which the reference value is defined: divisors non-zero, quotient fits"""
    return []


def check_case(case, res, tier):
    shape, kinds, memkind = case
    eng = Engine(width=c05.shape_width(shape) if G.width(shape) <= 32 else 200, timeout_ms=20000 if tier == 'quick' else 60000,
                 max_paths=300, max_seconds=90, path_seconds=20)
    name = '%s | ids:%s mem:%s' % (G.show(shape), ''.join(kinds), memkind)
    n = G.width(shape)
    UC = {1: M.uint1, 8: M.uint8, 16: M.uint16, 32: M.uint32, 64: M.uint64}

    def fn(eng):
        consts = c05.sym_consts(shape)
        e = G.build(shape, consts, X, M)
        binds = make_state(shape, kinds, memkind, None)
        membinds = []
        state = dict(binds)
        if memkind != '-':
            for j, ms in enumerate(mems_of(shape)):
                # bind the cell at the address obtained after substituting the identifier bindings
                addr = H.expr_simp(ref_subst(G.build(ms[1], consts, X, M), binds, [], None))
                if memkind == 'c':
                    v = X.ExprInt(UC[ms[2]](SInt.var('m%d' % j, 0, (1 << ms[2]) - 1)))
                else:
                    v = X.ExprOp('^', X.ExprId('mu%d' % j, ms[2]), X.ExprInt(UC[ms[2]](SInt.var('mk%d' % j, 0, (1 << ms[2]) - 1))))
                if any(c13.struct_eq(addr, ka) is True for (ka, _), _ in membinds):
                    continue
                membinds.append(((addr, ms[2]), v))
                state[X.ExprMem(addr, ms[2])] = v
        machine = EA.eval_abs(state)

        def decide(f):
            return eng.prove(f)        # valid for every valuation and every constant of the path
        try:
            r = machine.eval_expr(e, {})
        except PathAbort:
            raise
        except ValueError as ex:
            if any(d in str(ex) for d in DOCUMENTED):
                return ('DOC',)
            return ('CEX', 'exc:ValueError', 'raises ValueError: %s' % str(ex)[:80], eng.model_inputs(eng.witness()))
        except Exception as ex:
            return ('CEX', 'exc:' + type(ex).__name__, 'raises %s: %s' % (type(ex).__name__, str(ex)[:80]), eng.model_inputs(eng.witness()))
        c = ir2smt.Ctx(strict=False)
        try:
            spec_tree = ref_subst(G.build(shape, consts, X, M), binds, membinds, decide)
        except MayAlias as ex:
            return ('GEN', 'outside C06 (aliasing): %s' % ex)
        try:
            t_spec = ir2smt.tr(spec_tree, c)
        except (ir2smt.IllTyped, ir2smt.Untranslatable) as ex:
            return ('GEN', str(ex))
        try:
            t_res = ir2smt.tr(r, c, want=n)
        except (ir2smt.IllTyped, ir2smt.Untranslatable) as ex:
            return ('CEX', 'illformed', 'result is not well-formed IR: %s' % ex, eng.model_inputs(eng.witness()))
        if t_res.size() != t_spec.size():
            return ('CEX', 'width', 'result width %d, expression width %d' % (t_res.size(), t_spec.size()), eng.model_inputs(eng.witness()))
        allconst = all(k == 'c' for k in kinds) and (memkind == 'c' or not mems_of(shape)) and \
            all(sz in UC for _, sz in ids_of(shape))
        if allconst and not isinstance(r, X.ExprInt) and not _has_uninterpreted(shape):
            return ('CEX', 'not-constant', 'all inputs constant but the result is %s' % type(r).__name__, eng.model_inputs(eng.witness()))
        pre = _defined(spec_tree, c)
        st, m = eng.find(z3.And(pre, t_res != t_spec))
        if st == 'unsat':
            return ('OK',)
        if st == 'sat':
            return ('CEX', 'value', 'value differs: result %s' % r, eng.model_inputs(m))
        return ('UNKNOWN',)
    rs = eng.explore(fn)
    res['paths'] += eng.stats['paths']
    res['queries'] += eng.stats['queries']
    res['solver_s'] += eng.stats['solver_s']
    for u in eng.unexplored:
        res['inconclusive'].append('%s: %s' % (name, u))
    ok = 0
    for r in rs:
        if r[0] in ('OK', 'DOC'):
            ok += 1
            res['obligations'] += 1
            res['proved'] += 1
        elif r[0] == 'CEX':
            res['obligations'] += 1
            key = '%s:%s:w%d:%s%s' % (r[1], op_class(shape), n, 'const' if all(k == 'c' for k in kinds) else 'mixed', '' if memkind == '-' else ':mem' + memkind)
            res['candidates'].append({'key': key, 'desc': '%s: %s with %s' % (name, r[2], r[3]),
                                      'data': {'shape': shape, 'kinds': kinds, 'memkind': memkind, 'vals': {str(k): v for k, v in r[3].items()}, 'what': r[1]}})
        elif r[0] == 'GEN':
            res['gen_skipped'] = res.get('gen_skipped', 0) + 1
        elif r[0] == 'TIMEOUT':
            res['inconclusive'].append('%s: path timeout' % name)
        else:
            res['inconclusive'].append('%s: %s' % (name, r[1] if len(r) > 1 else r[0]))
    if ok:
        res['nontrivial'] += 1
        if len(res['samples']) < 2:
            res['samples'].append({'case': name, 'paths': len(rs), 'verdict': 'unsat on %d path(s)' % ok})


def _has_uninterpreted(shape):
    k = shape[0]
    if k == 'op':
        known = set(G.BINARY + G.UNARY + ['!'] + LIFTER_OPS2 + LIFTER_OPS3)
        if shape[1] not in known:
            return True
        return any(_has_uninterpreted(x) for x in shape[2])
    if k == 'mem':
        return _has_uninterpreted(shape[1])
    if k == 'cond':
        return any(_has_uninterpreted(x) for x in shape[1:])
    if k == 'slice':
        return _has_uninterpreted(shape[1])
    if k == 'compose':
        return any(_has_uninterpreted(x[0]) for x in shape[1])
    return False


def _defined(tree, c):
    """the reference value is constrained only where the processor does not fault: division operators need a
    non-zero divisor and a quotient that fits (#DE otherwise; the evaluator raises its documented ValueError there)"""
    conds = []

    def walk(e):
        if isinstance(e, X.ExprOp):
            import re
            m = re.match(r'^(i?)(div|rem)(8|16|32)$', e.op)
            if m and len(e.args) == 3:
                n = int(m.group(3))
                hi, lo, d = [c.fit(ir2smt.tr(a, c), n, 'div') for a in e.args]
                big = z3.Concat(hi, lo)
                conds.append(d != 0)
                if m.group(1):
                    q = big / z3.SignExt(n, d)
                    conds.append(z3.And(q >= -(1 << (n - 1)), q <= (1 << (n - 1)) - 1))
                    conds.append(z3.Not(z3.And(big == (1 << (2 * n - 1)), d == -1)))
                else:
                    conds.append(z3.ULE(z3.UDiv(big, z3.ZeroExt(n, d)), (1 << n) - 1))
            if e.op in ('bsf', 'bsr') and len(e.args) == 2:
                pass
            for a in e.args:
                walk(a)
        elif isinstance(e, X.ExprMem):
            walk(e.arg)
        elif isinstance(e, X.ExprCond):
            walk(e.cond); walk(e.src1); walk(e.src2)
        elif isinstance(e, X.ExprSlice):
            walk(e.arg)
        elif isinstance(e, X.ExprCompose):
            for a in e.args:
                walk(a[0])
    walk(tree)
    return z3.And(*conds) if conds else z3.BoolVal(True)


# layouts of adjacent bound memory cells (widths in bits, in address order from the base) and the reads made over them
CELL_LAYOUTS = [((8, 32), [(0, 16), (0, 32), (1, 16), (1, 32)]), ((16, 32), [(0, 32), (2, 32), (0, 16)]), ((8, 8, 32), [(0, 16), (0, 32), (1, 32)]),
                ((16, 64), [(0, 32), (0, 64)]), ((32, 8), [(0, 32), (0, 64) if False else (4, 8)]), ((8, 16, 8), [(0, 32), (1, 16), (0, 16)]),
                ((32, 32), [(0, 64), (4, 32), (0, 32)]), ((64, 8), [(0, 64), (8, 8)])]


def cell_cases(tier):
    out = []
    for layout, reads in CELL_LAYOUTS:
        for off, w in reads:
            for base in ('const', 'reg'):
                out.append(('cells', layout, off, w, base))
    return out


def check_cells(case, res, tier):
    """a read over several adjacent bound cells (every cell a symbolic constant) must evaluate to the bytes bound in the state"""
    _, layout, off, w, base = case
    name = 'cells %s read @%d[base+%d] base:%s' % ('+'.join(str(x) for x in layout), w, off, base)
    UC = {8: M.uint8, 16: M.uint16, 32: M.uint32, 64: M.uint64}
    eng = Engine(width=200, timeout_ms=20000, max_paths=200, max_seconds=60)
    total = sum(layout) // 8
    if off + w // 8 > total:
        return

    def fn(eng):
        b0 = X.ExprInt(M.uint32(0x1000)) if base == 'const' else X.ExprId('p', 32)
        state = {}
        vals = []
        pos = 0
        for k, cw in enumerate(layout):
            v = SInt.var('c%d' % k, 0, (1 << cw) - 1)
            vals.append((pos, cw, v))
            ad = b0 if pos == 0 else H.expr_simp(X.ExprOp('+', b0, X.ExprInt(M.uint32(pos))))
            state[X.ExprMem(ad, cw)] = X.ExprInt(UC[cw](v))
            pos += cw // 8
        machine = EA.eval_abs(state)
        rd = X.ExprMem(b0 if off == 0 else X.ExprOp('+', b0, X.ExprInt(M.uint32(off))), w)
        try:
            r = machine.eval_expr(rd, {})
        except PathAbort:
            raise
        except Exception as ex:
            return ('CEX', 'exc:%s' % type(ex).__name__, 'evaluation raises %s: %s' % (type(ex).__name__, str(ex)[:60]), eng.model_inputs(eng.witness()))
        # expected: little-endian bytes of the cells
        want = None
        for byte in range(off, off + w // 8):
            for pos_, cw, v in vals:
                if pos_ <= byte < pos_ + cw // 8:
                    t = z3.Extract(8 * (byte - pos_) + 7, 8 * (byte - pos_), core.term_of(v))
                    want = t if want is None else z3.Concat(t, want)
        c = ir2smt.Ctx(strict=False, flat=True)
        try:
            got = ir2smt.tr(r, c, want=w)
        except (ir2smt.IllTyped, ir2smt.Untranslatable) as ex:
            return ('CEX', 'illformed', 'result %s is not well-formed: %s' % (r, ex), eng.model_inputs(eng.witness()))
        if got.size() != w:
            return ('CEX', 'width', 'result has %d bits, the read %d' % (got.size(), w), eng.model_inputs(eng.witness()))
        st, m = eng.find(got != want)
        if st == 'sat':
            return ('CEX', 'value', 'the read evaluates to %s, not to the bytes bound in the state' % r, eng.model_inputs(m))
        if st != 'unsat':
            return ('UNKNOWN',)
        return ('OK',)
    rs = eng.explore(fn)
    res['paths'] += eng.stats['paths']
    res['queries'] += eng.stats['queries']
    res['solver_s'] += eng.stats['solver_s']
    ok = 0
    for r in rs:
        res['obligations'] += 1
        if r[0] == 'OK':
            res['proved'] += 1
            ok += 1
        elif r[0] == 'CEX':
            res['candidates'].append({'key': 'cells:%s:%s:r%d@%d:%s' % (r[1], '+'.join(str(x) for x in layout), w, off, base), 'desc': '%s: %s with %s' % (name, r[2], r[3]),
                                      'data': {'kind': 'cells', 'layout': list(layout), 'off': off, 'w': w, 'base': base, 'vals': r[3]}})
        else:
            res['inconclusive'].append('%s: %s' % (name, r[1] if len(r) > 1 else r[0]))
    for u in eng.unexplored:
        res['inconclusive'].append('%s: %s' % (name, u))
    if ok:
        res['nontrivial'] += 1


def jobs(tier, seed):
    cs = cases(tier, seed)
    cc = cell_cases(tier)
    return [('chunk', tier, cs[i:i + CHUNK]) for i in range(0, len(cs), CHUNK)] + [('chunk', tier, cc[i:i + 12]) for i in range(0, len(cc), 12)]


def run_job(job):
    _, tier, items = job
    res = {'paths': 0, 'queries': 0, 'solver_s': 0.0, 'obligations': 0, 'proved': 0, 'candidates': [],
           'inconclusive': [], 'samples': [], 'programs': 0, 'nontrivial': 0}
    if items and items[0][0] == 'cells':
        for it in items:
            res['programs'] += 1
            check_cells(it, res, tier)
        return res
    for it in items:
        res['programs'] += 1
        check_case(it, res, tier)
    return res


REPLAY = r'''
# replay of a C06 counterexample on the real eval_abs.eval_expr (exit 1 = property violated)
import sys
import z3
import miasmx.expression.expression as X
import miasmx.tools.modint as M
import miasmx.expression.expression_helper as H
import miasmx.expression.expression_eval_abstract as EA
from vf import ir2smt
from vf.gen import shapes as G
from vf.checks import c06, c13, c05
c06.X = c13.X = c05.X = X; c06.M = c05.M = M; c06.H = H; c06.EA = EA
D = %(data)r
V = D['vals']; UC = {1: M.uint1, 8: M.uint8, 16: M.uint16, 32: M.uint32, 64: M.uint64}
shape, kinds, memkind = D['shape'], tuple(D['kinds']), D['memkind']
consts = {k: V.get('k%%d' %% k, 0) for k, _ in G.ints_of(shape)}
binds = {}
for (nm, sz), kd in zip(c06.ids_of(shape), kinds):
    key = X.ExprId(nm, sz)
    if kd == 'c' and sz in UC: binds[key] = X.ExprInt(UC[sz](V.get('b_' + nm, 0)))
    elif kd == 'e' and sz in UC: binds[key] = X.ExprOp('+', X.ExprId('u_' + nm, sz), X.ExprInt(UC[sz](V.get('bk_' + nm, 0))))
    elif kd == 'i': binds[key] = X.ExprId('v_' + nm, sz)
    elif kd == 'q' and sz in UC: binds[key] = X.ExprCond(X.ExprId('w_' + nm, sz), X.ExprInt(UC[sz](V.get('q1_' + nm, 0))), X.ExprInt(UC[sz](V.get('q2_' + nm, 0))))
state = dict(binds); membinds = []
def dec(f):
    s_ = z3.Solver(); s_.add(z3.Not(f)); return s_.check() == z3.unsat
if memkind != '-':
    for j, ms in enumerate(c06.mems_of(shape)):
        addr = H.expr_simp(c06.ref_subst(G.build(ms[1], consts, X, M), binds, [], None))
        if memkind == 'c': v = X.ExprInt(UC[ms[2]](V.get('m%%d' %% j, 0)))
        else: v = X.ExprOp('^', X.ExprId('mu%%d' %% j, ms[2]), X.ExprInt(UC[ms[2]](V.get('mk%%d' %% j, 0))))
        if any(c13.struct_eq(addr, ka) is True for (ka, _), _ in membinds): continue
        membinds.append(((addr, ms[2]), v)); state[X.ExprMem(addr, ms[2])] = v
e = G.build(shape, consts, X, M)
print('e =', e, ' state =', {str(k): str(v) for k, v in state.items()})
bad = False
try:
    r = EA.eval_abs(state).eval_expr(e, {})
    print('result =', r)
    c = ir2smt.Ctx(strict=False)
    try:
        spec = c06.ref_subst(G.build(shape, consts, X, M), binds, membinds, dec)
    except c06.MayAlias as ex:
        print('outside C06:', ex); print('C06 replay: holds'); sys.exit(0)
    t_spec = ir2smt.tr(spec, c)
    try:
        t_res = ir2smt.tr(r, c, want=G.width(shape))
        allconst = all(k == 'c' for k in kinds) and (memkind == 'c' or not c06.mems_of(shape))
        if D['what'] == 'not-constant': bad = allconst and not isinstance(r, X.ExprInt)
        elif t_res.size() != t_spec.size(): bad = True; print('width', t_res.size(), 'vs', t_spec.size())
        else:
            s = z3.Solver(); s.add(c06._defined(spec, c), t_res != t_spec)
            if s.check() == z3.sat:
                m = s.model(); bad = True; print('reference value', m.eval(t_spec), ' result value', m.eval(t_res))
    except (ir2smt.IllTyped, ir2smt.Untranslatable) as ex:
        bad = True; print('result not well-formed:', ex)
except ValueError as ex:
    bad = not any(d in str(ex) for d in c06.DOCUMENTED); print('ValueError', ex)
except Exception as ex:
    bad = True; print('raises', type(ex).__name__, ex)
print('C06 replay:', 'VIOLATED' if bad else 'holds')
sys.exit(1 if bad else 0)
'''


REPLAY_CELLS = r'''
# replay of a C06 counterexample (read over several adjacent bound cells) on the real eval_abs (exit 1 = property violated)
import sys
import miasmx.expression.expression as X, miasmx.tools.modint as M
import miasmx.expression.expression_helper as H, miasmx.expression.expression_eval_abstract as EA
D = %(data)r
UC = {8: M.uint8, 16: M.uint16, 32: M.uint32, 64: M.uint64}
b0 = X.ExprInt(M.uint32(0x1000)) if D['base'] == 'const' else X.ExprId('p', 32)
state = {}; mem = {}; pos = 0
for k, cw in enumerate(D['layout']):
    v = D['vals'].get('c%%d' %% k, 0)
    ad = b0 if pos == 0 else H.expr_simp(X.ExprOp('+', b0, X.ExprInt(M.uint32(pos))))
    state[X.ExprMem(ad, cw)] = X.ExprInt(UC[cw](v))
    for j in range(cw // 8): mem[pos + j] = (v >> (8 * j)) & 0xFF
    pos += cw // 8
rd = X.ExprMem(b0 if D['off'] == 0 else X.ExprOp('+', b0, X.ExprInt(M.uint32(D['off']))), D['w'])
want = sum(mem[D['off'] + j] << (8 * j) for j in range(D['w'] // 8))
try:
    r = H.expr_simp(EA.eval_abs(state).eval_expr(rd, {}))
    print(rd, '->', r, '| bytes bound in the state: %%#x' %% want)
    bad = not (isinstance(r, X.ExprInt) and int(r.arg) == want and r.get_size() == D['w'])
except Exception as ex:
    print('evaluation raises', type(ex).__name__, ex); bad = True
print('C06 replay:', 'VIOLATED' if bad else 'holds')
sys.exit(1 if bad else 0)
'''


def make_replay(cnd):
    if cnd['data'].get('kind') == 'cells':
        return REPLAY_CELLS % {'data': cnd['data']}
    return REPLAY % {'data': cnd['data']}


def main(argv=None):
    a = common.tier_seed(argv)
    t0 = time.time()
    js = jobs(a.tier, a.seed)
    if a.only:
        js = [(k, t, [it for it in items if a.only in (repr(it) if it[0] == 'cells' else G.show(it[0]))]) for k, t, items in js]
        js = [j for j in js if j[2]]
    results, left = common.run_pool('vf.checks.c06', js, nproc=a.nproc, budget_s=1500 if a.tier == 'quick' else 5400)
    cov, cands, inconc, herr = c05.aggregate(results, left)
    cov['exhaustive'] = False
    cov['rule'] = 'a program = (expression shape, binding kind per identifier, binding kind of its memory cells); non-trivial = at least one path proved'
    cov['functions_encoded'] = ['miasmx.expression.expression_eval_abstract:eval_abs.eval_expr/eval_expr_no_cache/eval_ExprId/eval_ExprMem(exact)/eval_ExprOp/'
                                'eval_op_*/eval_ExprCond/eval_ExprSlice/eval_ExprCompose, mpool', 'expression_helper:expr_simp']
    cov['bounds'] = ('rule templates + depth-1 shapes + lifter operators, widths 32/8 and the n-ary arithmetic shapes at 16/64 (quick) or 8/16/32/64; bindings const/expression/identifier/absent; '
                     'memory cells bound at the exact address only (overlap is C07); division operators constrained only where the CPU does not fault')
    if cov['proved'] == 0:
        herr.append('vacuous: nothing proved')
    assumptions = ['E1 meaning of the IR and of the x86 helper operators (DESIGN section 4)', 'documented exceptions: ValueError(div by 0 / Divide Error)', 'z3 5.1.0', 'SInt proxy']
    return common.finish(PROP, a.tier, a.seed, 'translation_validation', t0, cov, assumptions, cands, herr, inconc, make_replay)


if __name__ == '__main__':
    sys.exit(main())
