"""C17 - control-flow metadata agrees with the instruction's architectural behaviour.

Arithmetic (solver, all values): every relative-branch row is decoded from a stream whose OFFSET is a
symbolic 32-bit value and whose displacement bytes are symbolic; getnextflow() = offset + l and
getdstflow() = (offset + l + sext(disp)) mod 2^opsize are proved for all offsets and displacements.
Classification: on every path of the decoder exploration (symbolic bytes), (breakflow, splitflow,
dstflow) equals the architectural class of the decoded mnemonic (table below).
"""
import sys
import time

import z3

from vf import common
from vf.symex import core, instr
from vf.symex.core import SInt, SBool, Engine, PathAbort, bvv
from vf.symex.instr import SBytes
from vf.x86 import explore as E
from vf.checks import c05

PROP = 'C17'

UNCOND = {'jmp', 'jmpf', 'ret', 'retf', 'iret', 'hlt', 'ud2'}
COND_EXTRA = {'loop', 'loope', 'loopne', 'jecxz', 'call', 'callf'}


def arch_class(name):
    """'U' block end without fall-through | 'C' block end with fall-through and destination | 'N' continues | None excluded"""
    if name.startswith('sys'):
        return None
    if name in UNCOND:
        return 'U'
    if name in COND_EXTRA or (name.startswith('j') and name not in ('jmp', 'jmpf')):
        return 'C'
    return 'N'


PREFIX_BYTES = (0x66, 0x67, 0x2E, 0x36, 0x3E, 0x26, 0x64, 0x65, 0xF0, 0xF2, 0xF3)


def arch_class_bytes(data):
    """the architectural class from the opcode bytes themselves (independent of the name the decoder gives the instruction):
    'U' block end without fall-through | 'C' block end with fall-through and destination | 'N' continues | None excluded (sys*)"""
    k = 0
    while k < len(data) and data[k] in PREFIX_BYTES:
        k += 1
    if k >= len(data):
        return 'N'
    b = data[k]
    if b == 0x0F:
        b2 = data[k + 1] if k + 1 < len(data) else 0
        if b2 in (0x05, 0x07, 0x34, 0x35):
            return None                  # syscall / sysret / sysenter / sysexit
        if b2 == 0x0B:
            return 'U'                   # ud2
        if 0x80 <= b2 <= 0x8F:
            return 'C'
        return 'N'
    if b in (0xC2, 0xC3, 0xCA, 0xCB, 0xCF, 0xE9, 0xEA, 0xEB, 0xF4):
        return 'U'                       # ret, retf, iret, jmp (near, far, short), hlt
    if 0x70 <= b <= 0x7F or b in (0xE0, 0xE1, 0xE2, 0xE3, 0xE8, 0x9A):
        return 'C'                       # jcc, loopne/loope/loop/jecxz, call near / far
    if b == 0xFF:
        reg = (data[k + 1] >> 3) & 7 if k + 1 < len(data) else 0
        return 'C' if reg in (2, 3) else 'U' if reg in (4, 5) else 'N'
    return 'N'


def worker_init():
    E.worker_init()


class Virt(object):
    """a 4 GiB address space in which the instruction bytes live at a symbolic address"""

    def __init__(self, base, items):
        self.base = base
        self.items = items

    def __len__(self):
        raise TypeError

    def __call__(self, start, stop, section=None):
        a = start - self.base
        b = stop - self.base
        if isinstance(a, SInt) or isinstance(b, SInt):
            raise PathAbort('non-constant position inside the instruction')
        if a < 0 or b > len(self.items):
            raise IOError
        return SBytes(self.items[a:b])


class VirtLen(Virt):
    def __len__(self):
        return 1 << 33        # bin_stream_virt calls virt.__len__() directly


def branch_rows():
    out = []
    for opc, last, m, digit in E.rows():
        if digit or last is None:
            continue
        if m.modifs.get('dstflow') and not E.has_modrm(m) and any(x in m.rm for x in (E.A.s08, E.A.s32, E.A.ims, E.A.u32, E.A.imm)):
            if m.name in ('jmpf', 'callf') or E.A.u16 in m.rm:
                continue            # far forms: absolute seg:offset, not relative
            out.append((opc, last, m.name, (E.A.s08 in m.rm) or bool(m.modifs.get(E.A.w8))))
    return out


def run_arith(job, res):
    _, prefixes, opc, last, name, rel8 = job
    title = 'flow %s|%s {%02x..} %s' % (' '.join('%02x' % p for p in prefixes), ' '.join('%02x' % b for b in opc), last[0], name)
    eng = Engine(width=72, timeout_ms=30000, max_paths=4000, max_seconds=300)

    def fn(eng):
        from miasmx.core.bin_stream import bin_stream_virt
        off = SInt.var('offset', 0, (1 << 32) - 16)
        lb = SInt.var('opb', 0, 255)
        eng.assume(instr._in_set(lb.t, list(last)))
        disp = [SInt.var('d%d' % i, 0, 255) for i in range(6)]
        items = list(prefixes) + list(opc) + [lb] + disp
        st = bin_stream_virt.__new__(bin_stream_virt)
        st.virt = VirtLen(off, items)
        st.offset = off
        st.section = None
        st.l = 1 << 33
        try:
            i = E.A.x86mnemo.dis(st)
        except PathAbort:
            raise
        except Exception as ex:
            return ('SKIP', 'decode raises %s (C10)' % type(ex).__name__)
        if i is None:
            return ('SKIP', 'not decoded')
        l = i.l
        if isinstance(l, SInt):
            l = l.__index__()
        opsize = 16 if 0x66 in prefixes else 32
        nb = l - len(prefixes) - len(opc) - 1
        # architecture: rel8 rows have one displacement byte, the others operand-size bytes (66 => rel16);
        # the address-size prefix does not change the displacement width
        nb_arch = 1 if rel8 else (2 if 0x66 in prefixes else 4)
        if nb != nb_arch:
            return ('CEX', 'disp-size', 'decoded with a %d-byte displacement, the architecture has %d bytes here' % (nb, nb_arch), eng.model_inputs(eng.witness()))
        dterm = z3.Concat(*[z3.Extract(7, 0, d.t) for d in reversed(disp[:nb])]) if nb > 1 else z3.Extract(7, 0, disp[0].t)
        sd = z3.SignExt(72 - 8 * nb, dterm)
        # fall-through
        nxt = i.getnextflow()
        st1, m1 = eng.find(core.term_of(nxt) != off.t + bvv(l))
        if st1 == 'sat':
            return ('CEX', 'next', 'getnextflow() != offset + length', eng.model_inputs(m1))
        if st1 != 'unsat':
            return ('UNKNOWN', 'next')
        if i.offset is not off and not eng.prove(core.term_of(i.offset) == off.t):
            return ('CEX', 'offset', 'recorded offset differs from the stream offset', eng.model_inputs(eng.witness()))
        try:
            dst = i.getdstflow()
        except PathAbort:
            raise
        except Exception as ex:
            return ('CEX', 'dst-exc:' + type(ex).__name__, 'getdstflow raises %s' % ex, eng.model_inputs(eng.witness()))
        if len(dst) != 1:
            return ('CEX', 'dst-count', 'getdstflow returns %d destinations' % len(dst), eng.model_inputs(eng.witness()))
        dv = dst[0]
        dv = instr.sym_int(dv) if not isinstance(dv, dict) else None
        if dv is None:
            return ('CEX', 'dst-kind', 'destination of a direct relative branch is not a number', eng.model_inputs(eng.witness()))
        want = (off.t + bvv(l) + sd) & bvv((1 << opsize) - 1)
        st2, m2 = eng.find(core.term_of(dv) != want)
        if st2 == 'sat':
            return ('CEX', 'dst', 'destination != (offset + length + sext(disp)) mod 2^%d' % opsize, eng.model_inputs(m2))
        if st2 != 'unsat':
            return ('UNKNOWN', 'dst')
        return ('OK',)
    rs = eng.explore(fn)
    _collect(eng, rs, res, title, {'kind': 'arith', 'prefixes': list(prefixes), 'opc': list(opc), 'rel8': rel8}, 'arith:%s:%s' % (name if not name.startswith('j') or name in ('jmp', 'jecxz') else 'jcc', '66' if 0x66 in prefixes else '32'))


def run_class(job, res):
    ejob = job[1]
    prefixes, opc, last, sibmode, rowname = ejob
    title = 'class %s|%s %s' % (' '.join('%02x' % p for p in prefixes), ' '.join('%02x' % b for b in opc), rowname)

    def on_path(eng, d):
        if d.kind != 'ok':
            return ('SKIP',)
        i = d.instr
        name = i.m.name
        # class of the bytes (opcode and, for ff, the ModRM reg field are concrete on every path); the name-based class is kept as a
        # cross-check of the table itself
        lead = list(prefixes) + list(opc)
        if last is not None:
            classes = set(arch_class_bytes(lead + [v, 0]) for v in last)
            if len(classes) > 1:
                lead.append(int(eng.concretize(d.data.items[len(lead)].t)))
            else:
                lead.append(sorted(last)[0])
        if lead[len(prefixes):][:1] == [0xFF] and len(lead) == len(prefixes) + 1:
            modrm = d.data.items[len(lead)]
            reg = modrm if isinstance(modrm, int) else None
            if reg is None:
                reg = int(eng.concretize(z3.Extract(5, 3, modrm.t))) << 3
            lead.append(reg & 0x38)
        cl = arch_class_bytes(lead + [0])
        if cl is None or arch_class(name) is None:
            return ('SKIP',)
        bk, sp, dt = bool(i.breakflow()), bool(i.splitflow()), bool(i.dstflow())
        ok = (cl == 'U' and bk and not sp) or (cl == 'C' and bk and sp and dt) or (cl == 'N' and not bk and not sp)
        nxt = i.getnextflow()
        if nxt != i.l:
            return ('CEX', 'next', '%s: getnextflow() = %r at offset 0 with length %r' % (name, nxt, i.l), {'bytes': E.witness_bytes(eng, d)})
        if not ok:
            return ('CEX', 'class:%s' % name, '%s reported (breakflow=%s, splitflow=%s, dstflow=%s), architectural class %s' % (name, bk, sp, dt, cl),
                    {'bytes': E.witness_bytes(eng, d)})
        return ('OK',)
    eng, rs = E.explore(ejob, on_path, max_paths=60000, max_seconds=600)
    _collect(eng, rs, res, title, {'kind': 'class'}, 'flow')


def _collect(eng, rs, res, title, data, keyprefix):
    res['paths'] += eng.stats['paths']
    res['queries'] += eng.stats['queries']
    res['solver_s'] += eng.stats['solver_s']
    for u in eng.unexplored:
        res['inconclusive'].append('%s: %s' % (title, u))
    ok = 0
    seen = set()
    for r in rs:
        if r[0] == 'OK':
            ok += 1
            res['obligations'] += 1
            res['proved'] += 1
        elif r[0] == 'CEX':
            res['obligations'] += 1
            key = '%s:%s' % (keyprefix, r[1])
            if key in seen:
                continue
            seen.add(key)
            d = dict(data)
            d['vals'] = r[3]
            d['what'] = r[1]
            res['candidates'].append({'key': key, 'desc': '%s: %s with %s' % (title, r[2], r[3]), 'data': d})
        elif r[0] == 'SKIP':
            pass
        else:
            res['inconclusive'].append('%s: %s' % (title, r[1] if len(r) > 1 else r[0]))
    if ok:
        res['nontrivial'] += 1
        if len(res['samples']) < 2:
            res['samples'].append({'case': title, 'paths': len(rs), 'verdict': 'holds on %d path(s) for all offsets / displacements / bytes' % ok})


def jobs(tier, seed):
    if E.A is None:
        common.env_setup()
        E.worker_init()
    out = []
    for opc, last, name, rel8 in branch_rows():
        for ps in ((), (0x66,), (0x67,), (0x2E,), (0x3E,), (0x66, 0x67)) if tier == 'thorough' else ((), (0x66,), (0x67,)):
            out.append(('arith', tuple(ps), opc, last, name, rel8))
    if tier == 'quick':
        # the classification is a property of the opcode row and its prefixes: every row, thinnest ModRM slice
        for ej in E.make_jobs(tier, seed, prefix_sets=[(), (0x66,), (0x67,), (0xF3,)], sib='one', per_signature=False):
            out.append(('class', ej))
    else:
        for ej in E.make_jobs(tier, seed, prefix_sets=[(), (0x66,), (0xF3,), (0x67,), (0x66, 0x66)], sib='reps', per_signature=False):
            out.append(('class', ej))
    return out


def run_job(job):
    res = {'paths': 0, 'queries': 0, 'solver_s': 0.0, 'obligations': 0, 'proved': 0, 'candidates': [],
           'inconclusive': [], 'samples': [], 'programs': 1, 'nontrivial': 0}
    if job[0] == 'arith':
        run_arith(job, res)
    else:
        run_class(job, res)
    return res


REPLAY = r'''
# replay of a C17 counterexample on the real decoder (exit 1 = property violated)
import sys
from miasmx.arch.ia32_arch import x86mnemo
from miasmx.core.bin_stream import bin_stream_str
D = %(data)r
bad = False
UNCOND = {'jmp', 'jmpf', 'ret', 'retf', 'iret', 'hlt', 'ud2'}; CE = {'loop', 'loope', 'loopne', 'jecxz', 'call', 'callf'}
if D['kind'] == 'class':
    data = bytes(D['vals']['bytes']); i = x86mnemo.dis(data); n = i.m.name
    from vf.checks import c17
    cl = None if n.startswith('sys') else c17.arch_class_bytes(list(data))
    bk, sp, dt = bool(i.breakflow()), bool(i.splitflow()), bool(i.dstflow())
    print(data[:i.l].hex(), n, 'breakflow', bk, 'splitflow', sp, 'dstflow', dt, 'class', cl, 'next', i.getnextflow())
    bad = i.getnextflow() != i.l or not ((cl == 'U' and bk and not sp) or (cl == 'C' and bk and sp and dt) or (cl == 'N' and not bk and not sp) or cl is None)
else:
    V = D['vals']; off = V['offset']
    body = bytes(D['prefixes'] + D['opc'] + [V['opb']] + [V['d%%d' %% k] for k in range(6)])
    class Virt(object):
        def __len__(self): return 1 << 33
        def __call__(self, a, b, section=None): return body[a - off:b - off]
        def __getitem__(self, s): return body
    from miasmx.core.bin_stream import bin_stream_virt
    st = bin_stream_virt.__new__(bin_stream_virt); st.virt = Virt(); st.offset = off; st.section = None; st.l = 1 << 33
    i = x86mnemo.dis(st)
    l = i.l; nb = l - len(D['prefixes']) - len(D['opc']) - 1
    nb_arch = 1 if D['rel8'] else (2 if 0x66 in D['prefixes'] else 4)
    if nb != nb_arch: print('decoded displacement of', nb, 'bytes; architecture:', nb_arch); bad = True; nb = nb_arch
    disp = int.from_bytes(body[l - nb:l], 'little', signed=True)
    opsize = 16 if 0x66 in D['prefixes'] else 32
    want = (off + l + disp) %% (1 << opsize)
    nxt = i.getnextflow(); dst = i.getdstflow()
    print(body[:l].hex(), 'at offset %%#x: next %%#x dst %%r, architectural target %%#x' %% (off, nxt, dst, want))
    bad = bad or nxt != off + l or i.offset != off or len(dst) != 1 or isinstance(dst[0], dict) or int(dst[0]) != want
print('C17 replay:', 'VIOLATED' if bad else 'holds')
sys.exit(1 if bad else 0)
'''


def make_replay(cnd):
    return REPLAY % {'data': cnd['data']}


def main(argv=None):
    a = common.tier_seed(argv)
    t0 = time.time()
    js = jobs(a.tier, a.seed)
    if a.only:
        js = [j for j in js if a.only in repr(j)]
    results, left = common.run_pool('vf.checks.c17', js, nproc=a.nproc, budget_s=1500 if a.tier == 'quick' else 5400)
    cov, cands, inconc, herr = c05.aggregate(results, left)
    cov['exhaustive'] = False
    cov['rule'] = 'a program = one relative-branch row x prefix set (arithmetic) or one opcode row (classification); non-trivial = at least one path proved'
    cov['functions_encoded'] = ['ia32_arch:x86_mn._dis, getnextflow, getdstflow, breakflow/splitflow/dstflow', 'core.bin_stream:bin_stream_virt.readbs']
    cov['bounds'] = ('arithmetic: all relative jcc/jmp/call/loop*/jecxz rows, offset symbolic in [0, 2^32-16], all displacement bytes symbolic, prefix sets none/66 (+67, 2E, 3E, 66 67 thorough); '
                     'classification: rows of the live opcode trie (%s), prefix set none (+66, F3 thorough), 11 symbolic bytes, SIB representatives; sys* excluded' % ('one per signature' if a.tier == 'quick' else 'all'))
    if cov['proved'] == 0:
        herr.append('vacuous: nothing proved')
    assumptions = ['architectural target = (offset + length + sign-extended displacement) mod 2^operand-size', 'classification table in vf/checks/c17.py', 'z3 5.1.0', 'SInt/SBytes proxies']
    return common.finish(PROP, a.tier, a.seed, 'model_checking', t0, cov, assumptions, cands, herr, inconc, make_replay)


if __name__ == '__main__':
    sys.exit(main())
