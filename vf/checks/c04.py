"""C04 - lifted x86 semantics match the processor on the integer core.

Instances come from the symbolic decoder exploration (so immediates, displacements and shift counts are
symbolic through the real lifter).  On every path whose mnemonic is in the integer core: the real
get_instr_expr() output is applied in parallel to a symbolic pre-state under E1 and compared, one query
per resource (8 GPRs, 7 flags, all of memory via a probe index, eip), with the reference semantics of
vf/x86spec/sem.py - only where the SDM defines the result.  A counterexample is a three-way vote at the
solver's state: miasmX's IR / the reference / the host CPU in a 32-bit process; VIOLATION only if
CPU == reference != miasmX (CPU != reference is a harness error).
"""
import re
import sys
import time

import z3

from vf import common, ir2smt
from vf.symex import core, instr
from vf.symex.core import SInt, SBool, Engine, PathAbort
from vf.x86 import explore as E
from vf.x86spec import sem as SPEC
from vf.oracles import cpu32
from vf.checks import c05, c10, c11

PROP = 'C04'
RES_REGS = SPEC.GPR
RES_FLAGS = SPEC.FLAGS
IGNORED_IDS = ('vm_exception_flags', 'tsc1', 'tsc2', 'i_f', 'float_', 'reg_float', 'cr', 'dr', 'tmp1')


def worker_init():
    c11.worker_init()
    global SEM, EH, X, M
    SEM, EH, X, M = c11.SEM, c11.EH, c11.X, c11.M


def form_of(args):
    out = []
    for a in args:
        if isinstance(a, X.ExprInt):
            out.append('i')
        elif isinstance(a, X.ExprMem):
            out.append('m')
        elif isinstance(a, X.ExprId):
            out.append('r' if a.size >= 16 and a.name not in ('es', 'cs', 'ss', 'ds', 'fs', 'gs') else 's')
        elif isinstance(a, X.ExprSlice):
            out.append('r')
        else:
            out.append('?')
    return ''.join(out)


def op_size(args, opmode_bits):
    for a in args:
        n = ir2smt.size_of(a)
        if n:
            return n
    return opmode_bits


def accessed_addresses(c, post, S):
    out = list(c.mem_reads)          # (E1 reads of the lifted IR and every access of the reference)
    for ad, nb, v in post.stores:
        out.append((ad, nb))
    return out


def compare(eng, name, args, affs, l, opbits, adbits=32):
    """-> list of (resource, status, model) for resources that differ; raises Unsupported/IllTyped"""
    c = ir2smt.Ctx(strict=False, flat=True)
    post = ir2smt.apply_affs(affs, c)
    nxt = z3.BitVecVal(l, 32)
    S = SPEC.Spec(c, nxt)
    SPEC.sem(name, S, args, {'opsize': opbits, 'l': l, 'adsize': adbits})
    pre = z3.And(*S.assume) if S.assume else z3.BoolVal(True)
    # keep counterexamples replayable on the CPU when possible: every touched address inside the scratch window
    win = []
    for ad, nb in accessed_addresses(c, post, S):
        win.append(z3.And(z3.UGE(ad, cpu32.WIN_BASE + 0x400), z3.ULE(ad, cpu32.WIN_BASE + cpu32.WIN_SIZE - 0x400)))
    if any(k[0] == 'esp' for k in list(post.regs) + list(S.post)):
        esp = c.id('esp', 32)
        win.append(z3.And(z3.UGE(esp, cpu32.WIN_BASE + 0x400), z3.ULE(esp, cpu32.WIN_BASE + cpu32.WIN_SIZE - 0x400), z3.Extract(1, 0, esp) == 0))
    winc = z3.And(*win) if win else z3.BoolVal(True)
    bad = []

    def query(res, lt, st, dfn):
        cond = z3.And(pre, dfn, lt != st)
        s1, m = eng.find(z3.And(cond, winc))
        cpu_ok = True
        if s1 == 'unsat' and win:
            s1, m = eng.find(cond)
            cpu_ok = False
        if s1 == 'sat':
            bad.append((res, 'sat', m, cpu_ok))
        elif s1 != 'unsat':
            bad.append((res, 'unknown', None, False))
    names = set(k for k in post.regs) | set(k for k in S.post)
    for (nm, sz) in sorted(names):
        if any(nm.startswith(p) for p in IGNORED_IDS) or nm == 'eip':
            continue
        pv = c.id(nm, sz)
        lt = post.regs.get((nm, sz), pv)
        st = S.post.get((nm, sz), pv)
        if lt.size() != st.size():
            bad.append(('%s' % nm, 'width', None, False))
            continue
        dfn = S.defined.get((nm, sz), z3.BoolVal(True))
        query(nm, lt, st, dfn)
    # memory
    p = z3.BitVec('probe_addr', 32)
    query('mem', z3.Select(post.mem, p), z3.Select(S.mem, p), z3.BoolVal(True))
    # control flow
    le = post.regs.get(('eip', 32), nxt)
    se = S.eip if S.eip is not None else nxt
    if le.size() != 32:
        le = SPEC.zx(le, 32)
    query('eip', le, se, z3.BoolVal(True))
    return c, post, S, bad


def concrete_state(c, post, S, m):
    """model -> dict for the replay (registers, flags, memory bytes at every touched address)"""
    st = {'ids': {}, 'mem': {}}
    for (nm, sz), v in c.ids.items():
        st['ids']['%s:%d' % (nm, sz)] = m.eval(v, model_completion=True).as_long()
    for ad, nb in accessed_addresses(c, post, S):
        a0 = m.eval(ad, model_completion=True).as_long()
        for k in range(-4, nb + 4):
            a = (a0 + k) & 0xFFFFFFFF
            st['mem'][a] = m.eval(z3.Select(c.mem0, z3.BitVecVal(a, 32)), model_completion=True).as_long()
    if 'probe_addr' in [str(d) for d in m.decls()]:
        a = m.eval(z3.BitVec('probe_addr', 32), model_completion=True).as_long()
        st['probe'] = a
        st['mem'].setdefault(a, m.eval(z3.Select(c.mem0, z3.BitVecVal(a, 32)), model_completion=True).as_long())
    return st


def run_sem(job, res, tier):
    ejob = job[1]
    prefixes, opc, last, sibmode, rowname = ejob
    title = 'sem %s|%s%s %s' % (' '.join('%02x' % p for p in prefixes), ' '.join('%02x' % b for b in opc), '' if last is None else ' {%02x..}' % last[0], rowname)
    seen = set()

    def on_path(eng, d):
        if d.kind != 'ok':
            return ('SKIP',)
        i = d.instr
        name = i.m.name
        if not SPEC.in_core(name) or name not in SEM.mnemo_func:
            return ('SKIP',)
        if any(p in (0xF2, 0xF3) for p in i.prefix):
            return ('SKIP',)              # rep forms: C07
        c11.reset_singletons()
        opbits = 16 if i.opmode == E.A.u16 else 32
        try:
            affs = EH.get_instr_expr(i, X.ExprInt(M.uint32(i.l)), [])
            args = i.arg_expr
        except PathAbort:
            raise
        except Exception:
            return ('SKIP',)              # C11
        try:
            c, post, S, bad = compare(eng, name, args, affs, i.l, opbits, 16 if i.admode == E.A.u16 else 32)
        except SPEC.Unsupported as ex:
            return ('UNSUP', str(ex))
        except (ir2smt.IllTyped, ir2smt.Untranslatable) as ex:
            return ('ILL', '%s: %s' % (name, ex))
        except z3.Z3Exception as ex:
            return ('ILL', '%s: sort error %s' % (name, str(ex)[:60]))
        if not bad:
            return ('OK', name)
        out = []
        for r, status, m, cpu_ok in bad:
            if status != 'sat':
                out.append((r, status, None, None, False))
                continue
            byts = E.witness_bytes(eng, d, m)[:i.l]
            out.append((r, status, byts, concrete_state(c, post, S, m), cpu_ok))
        return ('BAD', name, form_of(args), op_size(args, opbits), out)
    eng, rs = E.explore(ejob, on_path, max_paths=60000, max_seconds=900 if tier == 'quick' else 2400)
    res['paths'] += eng.stats['paths']
    res['queries'] += eng.stats['queries']
    res['solver_s'] += eng.stats['solver_s']
    for u in eng.unexplored:
        res['inconclusive'].append('%s: %s' % (title, u))
    ok = 0
    for r in rs:
        if r[0] == 'OK':
            ok += 1
            res['obligations'] += 1
            res['proved'] += 1
        elif r[0] == 'BAD':
            res['obligations'] += 1
            _, name, form, size, lst = r
            for resn, status, byts, state, cpu_ok in lst:
                if status != 'sat':
                    res['inconclusive'].append('%s: %s/%s/%s %s: %s' % (title, name, size, form, resn, status))
                    continue
                key = 'lift:%s/%s/%s:%s' % (name, size, form, resn)
                if key in seen:
                    continue
                seen.add(key)
                res['candidates'].append({'key': key, 'desc': '%s: %s differs from the reference for %s' % (name, resn, ' '.join('%02x' % b for b in byts)),
                                          'soft': not cpu_ok,
                                          'data': {'bytes': byts, 'state': state, 'res': resn, 'cpu': cpu_ok, 'name': name}})
        elif r[0] == 'SKIP':
            pass
        elif r[0] in ('UNSUP', 'ILL'):
            res['skipped'] = res.get('skipped', 0) + 1
            if len(res.setdefault('skipped_why', [])) < 5:
                res['skipped_why'].append(r[1][:100])
        else:
            res['inconclusive'].append('%s: %s' % (title, r[1] if len(r) > 1 else r[0]))
    if ok:
        res['nontrivial'] += 1
        if len(res['samples']) < 2:
            res['samples'].append({'row': title, 'paths': len(rs), 'verdict': 'every defined resource equals the reference semantics on %d path(s), all states and immediates' % ok})


def jobs(tier, seed):
    if E.A is None:
        common.env_setup()
        E.worker_init()
    ps = [(), (0x66,)] if tier == 'quick' else [(), (0x66,), (0x67,), (0x2E,)]
    out = []
    for ej in E.make_jobs(tier, seed, prefix_sets=ps, sib='min' if tier == 'quick' else 'reps', per_signature=False):
        # keep only rows that can decode to a core mnemonic
        prefixes, opc, last, sibmode, rowname = ej
        node = E.A.x86mndb.db_mnemo
        for b in opc:
            node = node[b]
        ms = [x for x in node if x is not None] if last is None else [node[last[0]]]
        if any(isinstance(x, E.A.mnemonic) and SPEC.in_core(x.name) for x in ms):
            out.append(('sem', ej, tier))
    # longest jobs first (multiplications, divisions, bit tests and double shifts dominate the solver time)
    slow = ('imul', 'mul', 'idiv', 'div', 'btc', 'bts', 'btr', 'bt', 'shld', 'shrd', 'cmpxchg', 'test', 'xadd', 'rcl', 'rcr')
    out.sort(key=lambda j: (0 if j[1][4] in slow else 1))
    return out


def run_job(job):
    res = {'paths': 0, 'queries': 0, 'solver_s': 0.0, 'obligations': 0, 'proved': 0, 'candidates': [],
           'inconclusive': [], 'samples': [], 'programs': 1, 'nontrivial': 0}
    run_sem(job, res, job[2])
    return res


REPLAY = r'''
# replay of a C04 counterexample: three-way vote miasmX IR / reference semantics / host CPU (exit 1 = miasmX alone is wrong)
import sys
import z3
from miasmx.arch.ia32_arch import x86mnemo, u16
import miasmx.arch.ia32_sem as SEM
import miasmx.tools.emul_helper as EH
import miasmx.expression.expression as X
import miasmx.tools.modint as M
from vf import ir2smt
from vf.x86spec import sem as SPEC
from vf.oracles import cpu32
D = %(data)r
data = bytes(D['bytes']); st = D['state']; res = D['res']
i = x86mnemo.dis(data + b'\x90' * 4)
affs = EH.get_instr_expr(i, X.ExprInt(M.uint32(i.l)), []); args = i.arg_expr
print(data.hex(), str(i).strip()); [print('   ', a) for a in affs]
c = ir2smt.Ctx(strict=False, flat=True)
post = ir2smt.apply_affs(affs, c)
S = SPEC.Spec(c, z3.BitVecVal(i.l, 32)); SPEC.sem(i.m.name, S, args, {'opsize': 16 if i.opmode == u16 else 32, 'l': i.l, 'adsize': 16 if i.admode == u16 else 32})
sub = []
for k, v in st['ids'].items():
    nm, sz = k.rsplit(':', 1); sub.append((c.id(nm, int(sz)), z3.BitVecVal(v, int(sz))))
mem = z3.K(z3.BitVecSort(32), z3.BitVecVal(0, 8))
for a, v in st['mem'].items(): mem = z3.Store(mem, z3.BitVecVal(int(a), 32), z3.BitVecVal(v, 8))
sub.append((c.mem0, mem))
if 'probe' in st: sub.append((z3.BitVec('probe_addr', 32), z3.BitVecVal(st['probe'], 32)))
ev = lambda t: z3.simplify(z3.substitute(t, *sub))
def val(t):
    v = ev(t); return v.as_long() if z3.is_bv_value(v) else None
nxt = z3.BitVecVal(i.l, 32)
if res == 'mem':
    p = z3.BitVecVal(st['probe'], 32); lt, sp = z3.Select(post.mem, p), z3.Select(S.mem, p)
elif res == 'eip':
    lt = post.regs.get(('eip', 32), nxt); sp = S.eip if S.eip is not None else nxt
else:
    sz = 1 if res in SPEC.FLAGS else 32
    keys = [k for k in list(post.regs) + list(S.post) if k[0] == res]; sz = keys[0][1] if keys else sz
    lt = post.regs.get((res, sz), c.id(res, sz)); sp = S.post.get((res, sz), c.id(res, sz))
if lt.size() > sp.size(): lt = z3.Extract(sp.size() - 1, 0, lt)
vm, vs = val(lt), val(sp)
print('resource %%s: miasmX IR -> %%s, reference -> %%s' %% (res, vm if vm is None else hex(vm), vs if vs is None else hex(vs)))
bad = (vm != vs)
if bad and not D['cpu']:
    print('the touched addresses cannot be placed in the CPU scratch window: no three-way vote, not reported'); bad = False
if D['cpu'] and bad:
    regs = dict((r, st['ids'].get(r + ':32', 0)) for r in cpu32.REGS)
    flags = dict((f, st['ids'].get(f + ':1', 0)) for f in cpu32.FLAG_BITS)
    window = {}
    for a, v in st['mem'].items():
        a = int(a)
        if cpu32.WIN_BASE <= a < cpu32.WIN_BASE + cpu32.WIN_SIZE: window[a - cpu32.WIN_BASE] = v
    code = data[:i.l]
    if res == 'eip':
        print('(control flow is voted on taken / not-taken by construction of the test program: not replayed on the CPU)')
    else:
        r = cpu32.run(code, regs, flags, window)
        if r.get('fault'):
            print('CPU: fault', r['fault']); print('C04 replay: holds (faulting state)'); sys.exit(0)
        if res == 'mem':
            a = st['probe'] - cpu32.WIN_BASE
            vc = r['window'][a] if 0 <= a < cpu32.WIN_SIZE else None
        elif res in cpu32.FLAG_BITS: vc = r['flags'][res]
        elif res in cpu32.REGS: vc = r['regs'][res]
        else: vc = None
        print('CPU ->', vc if vc is None else hex(vc))
        if vc is not None:
            if vc == vs and vc != vm: bad = True
            elif vc == vm: print('the CPU sides with miasmX: the reference is wrong (harness error)'); bad = False
            else: print('CPU differs from both'); bad = False
print('C04 replay:', 'VIOLATED' if bad else 'holds')
sys.exit(1 if bad else 0)
'''


def make_replay(cnd):
    return REPLAY % {'data': cnd['data']}


def main(argv=None):
    a = common.tier_seed(argv)
    t0 = time.time()
    js = jobs(a.tier, a.seed)
    if a.only:
        js = [j for j in js if a.only in repr(j)]
    results, left = common.run_pool('vf.checks.c04', js, nproc=a.nproc, budget_s=1800 if a.tier == 'quick' else 9000)
    cov, cands, inconc, herr = c05.aggregate(results, left)
    cov['skipped_unsupported_or_illtyped'] = sum(r.get('skipped', 0) for r in results if 'harness_error' not in r)
    cov['skipped_examples'] = sorted(set(w for r in results if 'harness_error' not in r for w in r.get('skipped_why', [])))[:12]
    # the reference semantics is part of the trusted base: validate it against the host CPU on every run
    try:
        from vf.x86spec import validate as V
        tv, bv, rep = V.main(1 if a.tier == 'quick' else 10, seed=a.seed, verbose=False)
        cov['spec_validation'] = {'instruction_state_pairs_vs_cpu': tv, 'disagreements': bv, 'instructions': len(V.LINES)}
        if bv:
            herr.append('the reference semantics disagrees with the CPU: ' + '; '.join(rep[:3]))
    except Exception as ex:
        inconc.append('reference validation could not run: %s %s' % (type(ex).__name__, ex))
    cov['exhaustive'] = False
    cov['rule'] = 'a program = one (prefix set, opcode row) of the integer core; non-trivial = at least one path on which every defined resource was proved equal'
    cov['functions_encoded'] = ['arch.ia32_sem: every semantic function of the integer core + dict_to_Expr + flag helpers', 'tools.emul_helper:get_instr_expr', 'expression.expression:ExprAff slice rewrite']
    cov['bounds'] = ('integer-core rows of the live trie x prefix sets %s; immediates/displacements/counts symbolic; all registers, flags and memory symbolic; '
                     'rep forms, privileged, I/O, far transfers, BCD excluded; results the SDM leaves undefined are not compared; #DE states assumed away' %
                     ('none/66' if a.tier == 'quick' else 'none/66/67/2E'))
    if cov['proved'] == 0:
        herr.append('vacuous: nothing proved')
    assumptions = ['reference semantics vf/x86spec/sem.py (validated against the host CPU: python3 -m vf.x86spec.validate, and at every counterexample)', 'flat segments, user mode', 'E1', 'z3 5.1.0']
    return common.finish(PROP, a.tier, a.seed, 'translation_validation', t0, cov, assumptions, cands, herr, inconc, make_replay)


if __name__ == '__main__':
    sys.exit(main())
