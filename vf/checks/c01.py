"""C01 - x86 decoding agrees with IA-32 (hybrid, DESIGN 5/C01).

Solver level (all byte values of a path): every immediate / displacement the decoder reports is one of the
standard encodings - the zero- or sign-extension of 1, 2 or 4 consecutive little-endian instruction bytes -
proved for ALL values of the symbolic bytes of the path; the reported length and raw bytes are those consumed
(C10 proves the rest of that clause).
Arbiter level (labelled so): at up to three deterministic witnesses per path (model, all-free-bytes-minimal,
all-free-bytes-maximal) GNU objdump must report the same length, mnemonic and operands (after parsing both
Intel renderings into one canonical operand structure); strings objdump rejects or decodes with a superfluous
prefix are outside the property's quantifier.
"""
import re
import sys
import time

import z3

from vf import common
from vf.symex import core, instr
from vf.symex.core import SInt, SBool, Engine, PathAbort, bvv
from vf.x86 import explore as E
from vf.oracles import objdump as OD
from vf.checks import c05, c10

PROP = 'C01'


def worker_init():
    E.worker_init()


def numeric_fields(i):
    """[(label, moduint-or-int value)] of the decoded instruction"""
    out = []
    for k, a in enumerate(i.arg):
        if isinstance(a, dict) and E.R.x86_afs.imm in a:
            out.append(('arg%d.%s' % (k, 'disp' if a.get(E.R.x86_afs.ad) else 'imm'), a[E.R.x86_afs.imm]))
    return out


def standard_encoding(eng, d, i, value):
    """True if `value` (a moduint holding a symbolic integer) is, for every value of the path's bytes, the
    zero/sign extension of 1/2/4 consecutive instruction bytes reduced to its width"""
    n = value.size if hasattr(value, 'size') else 32
    t = core.term_of(instr.sym_int(value))
    tn = z3.Extract(n - 1, 0, t)
    items = d.data.items
    m1 = eng.witness()
    cands = []
    for k in (1, 2, 4):
        for p in range(d.nconc - 1 if d.nconc else 0, i.l - k + 1):
            bs = items[p:p + k]
            if not any(isinstance(b, SInt) for b in bs):
                continue
            raw = z3.Concat(*[z3.Extract(7, 0, core.term_of(b)) for b in reversed(bs)]) if k > 1 else z3.Extract(7, 0, core.term_of(bs[0]))
            for ext in ('z', 's'):
                if 8 * k >= n:
                    c = z3.Extract(n - 1, 0, raw)
                    if ext == 's':
                        continue
                else:
                    c = (z3.ZeroExt if ext == 'z' else z3.SignExt)(n - 8 * k, raw)
                if z3.is_true(z3.simplify(m1.eval(tn == c, model_completion=True))):
                    cands.append((p, k, ext, c))
    for p, k, ext, c in cands:
        if eng.prove(tn == c):
            return (p, k, ext)
    return None


def run_dec(job, res, tier):
    ejob = job[1]
    prefixes, opc, last, sibmode, rowname = ejob
    title = 'dec %s|%s%s %s' % (' '.join('%02x' % p for p in prefixes), ' '.join('%02x' % b for b in opc), '' if last is None else ' {%02x..}' % last[0], rowname)
    wits = []          # (bytes, l, miasm text, name)

    def on_path(eng, d):
        if d.kind != 'ok':
            return ('SKIP',)
        i = d.instr
        if not isinstance(i.l, int):
            return ('ABORT', 'symbolic length')
        for label, v in numeric_fields(i):
            if isinstance(instr.sym_int(v), SInt):
                enc = standard_encoding(eng, d, i, v)
                if enc is None:
                    return ('CEX', 'nonstandard:%s' % i.m.name, '%s: %s is not the zero/sign extension of consecutive instruction bytes for all byte values' % (i.m.name, label),
                            E.witness_bytes(eng, d)[:i.l])
        ws = E.extreme_witnesses(eng, d) if tier == 'thorough' else E.extreme_witnesses(eng, d)[:3]
        seen = set()
        for w in ws:
            w = tuple(w[:i.l])
            if w in seen:
                continue
            seen.add(w)
            try:
                ci = E.A.x86mnemo.dis(bytes(w))
                txt = str(ci)
                wits.append((w, ci.l, txt, ci.m.name))
            except Exception:
                pass                     # C10's business
        return ('OK', i.m.name)
    eng, rs = E.explore(ejob, on_path, max_paths=60000, max_seconds=600 if tier == 'quick' else 1800)
    res['paths'] += eng.stats['paths']
    res['queries'] += eng.stats['queries']
    res['solver_s'] += eng.stats['solver_s']
    for u in eng.unexplored:
        res['inconclusive'].append('%s: %s' % (title, u))
    ok = 0
    seenk = set()
    for r in rs:
        if r[0] == 'OK':
            ok += 1
            res['obligations'] += 1
            res['proved'] += 1
        elif r[0] == 'CEX':
            res['obligations'] += 1
            if r[1] not in seenk:
                seenk.add(r[1])
                res['candidates'].append({'key': r[1], 'desc': r[2] + ' e.g. ' + ' '.join('%02x' % b for b in r[3]), 'data': {'bytes': list(r[3]), 'what': 'nonstandard'}})
        elif r[0] == 'SKIP':
            pass
        else:
            res['inconclusive'].append('%s: %s' % (title, r[1] if len(r) > 1 else r[0]))
    # arbiter at the witnesses
    uniq = list(dict.fromkeys(wits))
    dis = OD.disassemble([bytes(w[0]) for w in uniq])
    for slot, ((w, l, txt, name), od) in enumerate(zip(uniq, dis)):
        res['witnesses'] = res.get('witnesses', 0) + 1
        if od is None:
            res['wit_skipped'] = res.get('wit_skipped', 0) + 1
            continue
        olen, otxt = od
        opsize16 = 0x66 in w[:len(prefixes) + 1]
        try:
            co = OD.canon(otxt, 'objdump', addr=slot * OD.SLOT, length=olen, opsize16=opsize16, dup_size=len(set(prefixes)) != len(prefixes))
        except OD.Unparsed as ex:
            res['wit_skipped'] = res.get('wit_skipped', 0) + 1
            continue
        if olen != l:
            key = 'length:%s:%s|%s' % (name, ' '.join('%02x' % p_ for p_ in prefixes), ' '.join('%02x' % b_ for b_ in opc) + ('' if last is None else ' {%02x..}' % last[0]))
            if key not in seenk:
                seenk.add(key)
                res['candidates'].append({'key': key, 'desc': '%s: miasmX length %d (%s), objdump length %d (%s) for %s' % (title, l, txt.strip(), olen, otxt, bytes(w).hex()),
                                          'data': {'bytes': list(w), 'what': 'length', 'objdump': otxt, 'olen': olen}})
            res['wit_disagree'] = res.get('wit_disagree', 0) + 1
            continue
        try:
            cm = OD.canon(txt, 'miasm', length=l)
        except OD.Unparsed as ex:
            key = 'unparsed:%s' % name
            if key not in seenk:
                seenk.add(key)
                res['inconclusive'].append('%s: cannot parse miasmX rendering %r (%s)' % (title, txt, ex))
            continue
        why = OD.same(cm, co, addr16=(0x67 in w[:len(prefixes) + 1]))
        if why is None:
            res['wit_agree'] = res.get('wit_agree', 0) + 1
            continue
        res['wit_disagree'] = res.get('wit_disagree', 0) + 1
        kind = why.split()[0].rstrip(':')
        detail = re.sub(r'0x[0-9a-f]+|\d+', 'N', why)[:48] if kind not in ('absmem-unsized',) else ''
        key = '%s:%s:%s' % (kind, c10._mn_class(name) if kind == 'absmem-unsized' else name, detail)
        if key not in seenk:
            seenk.add(key)
            res['candidates'].append({'key': key, 'desc': '%s: %s | miasmX %r, objdump %r for %s' % (title, why, txt.strip(), otxt, bytes(w).hex()),
                                      'data': {'bytes': list(w), 'what': kind, 'objdump': otxt, 'olen': olen}})
    if ok:
        res['nontrivial'] += 1
        if len(res['samples']) < 2 and uniq:
            res['samples'].append({'row': title, 'paths': len(rs), 'witness': bytes(uniq[0][0]).hex(), 'miasmX': uniq[0][2].strip(),
                                   'verdict': 'all numeric operands are standard encodings of the bytes on %d path(s); %d witnesses compared with objdump' % (ok, len(uniq))})


def jobs(tier, seed):
    if E.A is None:
        common.env_setup()
        E.worker_init()
    if tier == 'quick':
        # one row per signature; the full SIB representative set only for rows whose name is in SIB_ROWS (addressing forms are decoded
        # by shared code), the thin ModRM slice elsewhere
        out = []
        for ej in E.make_jobs(tier, seed, prefix_sets=[(), (0x66,), (0x67,), (0x2E,), (0x66, 0x66), (0x67, 0x67)], sib='min', per_signature=True):
            if ej[4] in SIB_ROWS and ej[0] in ((), (0x67,)):
                ej = (ej[0], ej[1], ej[2], 'reps', ej[4])
            out.append(('dec', ej, tier))
        # every other row in the thinnest ModRM slice, without prefix and under 66 (operand kinds / register classes are per row)
        chosen = set((j[1][0], j[1][1], j[1][2]) for j in out)
        for ej in E.make_jobs(tier, seed, prefix_sets=[(), (0x66,)], sib='one', per_signature=False):
            if (ej[0], ej[1], ej[2]) not in chosen:
                out.append(('dec', ej, tier))
        return out
    ps = [(), (0x66,), (0x67,), (0x66, 0x67), (0x2E,), (0x36,), (0x26,), (0x64,), (0x65,), (0xF2,), (0xF3,), (0xF0,)]
    return [('dec', ej, tier) for ej in E.make_jobs(tier, seed, prefix_sets=ps, sib='reps', per_signature=False)] + \
        [('dec', ej, tier) for ej in E.make_jobs(tier, seed, prefix_sets=[(0x66, 0x66), (0x67, 0x67), (0x66, 0x67, 0x66)], sib='min', per_signature=False)]


SIB_ROWS = ('mov', 'lea', 'add', 'movzx', 'imul', 'fld', 'movq', 'push', 'cmpxchg', 'test', 'shl', 'inc')


def run_job(job):
    res = {'paths': 0, 'queries': 0, 'solver_s': 0.0, 'obligations': 0, 'proved': 0, 'candidates': [],
           'inconclusive': [], 'samples': [], 'programs': 1, 'nontrivial': 0}
    run_dec(job, res, job[2])
    return res


REPLAY = r'''
# replay of a C01 counterexample: the real decoder vs GNU objdump on concrete bytes (exit 1 = they disagree)
import sys
from miasmx.arch.ia32_arch import x86mnemo
from vf.oracles import objdump as OD
D = %(data)r
data = bytes(D['bytes']); bad = False
i = x86mnemo.dis(data + b'\x90' * 4)
od = OD.disassemble([data])[0]
print(data.hex(), '| miasmX:', i.l, str(i).strip(), '| objdump:', od)
if D['what'] == 'nonstandard':
    import itertools
    # vary each byte after the opcode and check the reported numbers against the standard encodings of the bytes
    base = list(data); bad = False
    from miasmx.arch.ia32_reg import x86_afs
    def fields(ins): return [int(a[x86_afs.imm]) for a in ins.arg if isinstance(a, dict) and x86_afs.imm in a]
    f0 = fields(i)
    for pos in range(1, i.l):
        for v in (0, 1, 0x7f, 0x80, 0xff):
            b2 = list(base); b2[pos] = v
            j = x86mnemo.dis(bytes(b2) + b'\x90' * 4)
            if j is None or j.l != i.l or j.m.name != i.m.name: continue
            for val in fields(j):
                ok = False
                for k in (1, 2, 4):
                    for p in range(0, j.l - k + 1):
                        raw = int.from_bytes(bytes(b2[p:p + k]), 'little'); sraw = int.from_bytes(bytes(b2[p:p + k]), 'little', signed=True)
                        for w in (8, 16, 32):
                            if val in (raw %% (1 << w), sraw %% (1 << w)): ok = True
                if not ok: bad = True; print('value %%#x of %%s is not an encoding of its bytes' %% (val, bytes(b2[:j.l]).hex()))
elif od is None: bad = False
else:
    olen, otxt = od
    try:
        pf = [b for b in data[:4] if b in (0x66, 0x67)]
        co = OD.canon(otxt, 'objdump', addr=0, length=olen, opsize16=(0x66 in data[:3]), dup_size=len(pf) != len(set(pf)))
        if olen != i.l: bad = True; print('length', i.l, 'vs', olen)
        else:
            why = OD.same(OD.canon(str(i), 'miasm', length=i.l), co, addr16=(0x67 in data[:3]))
            if why: bad = True; print(why)
    except OD.Unparsed as ex:
        print('outside the quantifier:', ex)
print('C01 replay:', 'VIOLATED' if bad else 'holds')
sys.exit(1 if bad else 0)
'''


def make_replay(cnd):
    return REPLAY % {'data': cnd['data']}


def main(argv=None):
    a = common.tier_seed(argv)
    t0 = time.time()
    js = jobs(a.tier, a.seed)
    if a.only:
        js = [j for j in js if a.only in repr(j)]
    results, left = common.run_pool('vf.checks.c01', js, nproc=a.nproc, budget_s=1800 if a.tier == 'quick' else 9000)
    cov, cands, inconc, herr = c05.aggregate(results, left)
    for k in ('witnesses', 'wit_agree', 'wit_disagree', 'wit_skipped'):
        cov[k] = sum(r.get(k, 0) for r in results if 'harness_error' not in r)
    cov['exhaustive'] = False
    cov['rule'] = 'a program = one (prefix set, opcode row) with all following bytes symbolic; non-trivial = at least one path proved'
    cov['functions_encoded'] = ['ia32_arch:x86_mn._dis/special_opcodes/intsize, x86allmncs.get_afs/get_im_fmt/modrm', 'x86_mn.__str__/dict_to_ad (witnesses)']
    cov['bounds'] = ('rows of the live trie (%s) x %d prefix sets; 11 symbolic bytes; SIB 8 representatives; numeric operands proved standard encodings for all byte values; '
                     'length/mnemonic/operands compared with objdump at <= 3 deterministic witnesses per path' % ('one per signature' if a.tier == 'quick' else 'all', 4 if a.tier == 'quick' else 12))
    if cov['proved'] == 0:
        herr.append('vacuous: nothing proved')
    assumptions = ['GNU objdump 2.40 (-m i386 -M intel) as arbiter at witnesses; normaliser vf/oracles/objdump.py', 'within one path the decoder took no further branch, so witnesses generalise to the path (argument)',
                   'z3 5.1.0', 'proxies']
    return common.finish(PROP, a.tier, a.seed, 'model_checking', t0, cov, assumptions, cands, herr, inconc, make_replay)


if __name__ == '__main__':
    sys.exit(main())
