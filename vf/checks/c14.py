"""C14 - fixed-width integers implement arithmetic modulo 2^n.

E2 executes the real methods of miasmx.tools.modint on operands built by the real constructors from
symbolic integers; the assertion is an independent SMT statement of the mathematics (DESIGN 5/C14).
"""
import sys
import time

import z3

from vf import common
from vf.symex import core, instr
from vf.symex.core import SInt, SBool, Engine, PathAbort, bvv

PROP = 'C14'
UCLS = ['uint1', 'uint8', 'uint16', 'uint32', 'uint64', 'uint128']
SCLS = ['int8', 'int16', 'int32', 'int64', 'int128']
SIZES = dict(uint1=1, uint8=8, uint16=16, uint32=32, uint64=64, uint128=128,
             int8=8, int16=16, int32=32, int64=64, int128=128)
BINOPS = ['+', '-', '*', '&', '|', '^', '<<', '>>', '%', '==', '!=', '<', '<=', '>', '>=', '**']
UNOPS = ['~', 'neg', 'abs', 'int', 'hash', 'ctor', 'pow2', 'pow3', 'pow0', 'pow1', 'rpow2']

import operator as _op
PYOP = {'+': _op.add, '-': _op.sub, '*': _op.mul, '&': _op.and_, '|': _op.or_, '^': _op.xor,
        '<<': _op.lshift, '>>': _op.rshift, '%': _op.mod, '==': _op.eq, '!=': _op.ne, '<': _op.lt,
        '<=': _op.le, '>': _op.gt, '>=': _op.ge, '**': _op.pow}
CMP = ('==', '!=', '<', '<=', '>', '>=')


def worker_init():
    instr.install()
    global M
    import miasmx.tools.modint as M


def is_signed(cn):
    return cn.startswith('int')


def rng(cn):
    n = SIZES[cn]
    return (-(1 << (n - 1)), (1 << (n - 1)) - 1) if is_signed(cn) else (0, (1 << n) - 1)


def reduce_term(t, cn):
    """W-bit term of the integer congruent to t mod 2^n lying in cn's range"""
    n = SIZES[cn]
    lowbits = z3.Extract(n - 1, 0, t)
    W = core.Ctx.W
    return z3.SignExt(W - n, lowbits) if is_signed(cn) else z3.ZeroExt(W - n, lowbits)


def spec_bin(op, a, b):
    """exact W-bit term (valid mod 2^W for ring ops, exact for the others given in-range operands)"""
    if op == '+': return a + b
    if op == '-': return a - b
    if op == '*': return a * b
    if op == '&': return a & b
    if op == '|': return a | b
    if op == '^': return a ^ b
    if op == '<<': return a << b
    if op == '>>': return a >> b          # arithmetic = floor division by 2^b for exact signed operands
    if op == '%': return a % b           # bvsmod: sign of the divisor, as Python
    if op == '**':                       # square-and-multiply: a^b modulo 2^W for 0 <= b < 2^POWBITS
        r, sq = bvv(1), a
        for i in range(POWBITS[0]):
            r = z3.If(z3.Extract(i, i, b) == z3.BitVecVal(1, 1), r * sq, r)
            sq = sq * sq
        return r
    raise KeyError(op)


POWBITS = [9]


def spec_cmp(op, a, b):
    return {'==': a == b, '!=': a != b, '<': a < b, '<=': a <= b, '>': a > b, '>=': a >= b}[op]


def jobs(tier, seed):
    out = []
    allc = UCLS + SCLS
    if tier == 'quick':
        sel = ['uint1', 'uint8', 'uint16', 'uint32', 'uint64', 'int8', 'int16', 'int32', 'int64']
    else:
        sel = allc
    for ca in sel:
        for cb in sel + ['int']:
            out.append(('bin', ca, cb))
        out.append(('refl', ca, 'int'))
        out.append(('un', ca, None))
    return out


def _mkval(name, cn_or_int, wide_bits):
    """a symbolic python integer used as constructor argument / plain int operand"""
    lim = 1 << wide_bits
    return SInt.var(name, -lim, lim)


def run_job(job):
    kind, ca, cb = job
    na = SIZES[ca]
    nb = SIZES[cb] if cb in SIZES else na
    nmax = max(na, nb)
    width = nmax + 8
    res = {'obligations': 0, 'proved': 0, 'paths': 0, 'queries': 0, 'solver_s': 0.0,
           'candidates': [], 'inconclusive': [], 'samples': [], 'reached': 0}
    ops = BINOPS if kind in ('bin', 'refl') else UNOPS
    for op in ops:
        eng = Engine(width=width, timeout_ms=30000, max_paths=200, max_seconds=120)
        ob = []

        def fn(eng, op=op):
            return _harness(eng, kind, ca, cb, op)
        instr.HASH_MODE[0] = 'uf' if op == 'hash' or op in ('==',) else 'const'
        try:
            rs = eng.explore(fn)
        finally:
            instr.HASH_MODE[0] = 'const'
        res['paths'] += eng.stats['paths']
        res['queries'] += eng.stats['queries']
        res['solver_s'] += eng.stats['solver_s']
        for r in rs:
            if r[0] == 'ABORT':
                res['inconclusive'].append('%s %s %s %s: %s' % (kind, ca, cb, op, r[1]))
                continue
            if r[0] == 'SKIP':
                continue
            res['obligations'] += 1
            res['reached'] += 1
            if r[0] == 'OK':
                res['proved'] += 1
                if len(res['samples']) < 2:
                    res['samples'].append('%s %s(%s) %s %s: unsat [%s]' % (kind, ca, 'a', op, cb, r[1]))
            elif r[0] == 'CEX':
                res['candidates'].append({'key': '%s:%s:%s:%s:%s' % (kind, ca, cb, op, r[1]), 'desc': r[2], 'data': r[3]})
            else:
                res['inconclusive'].append('%s %s %s %s: %s' % (kind, ca, cb, op, r))
        for u in eng.unexplored:
            res['inconclusive'].append('%s %s %s %s: %s' % (kind, ca, cb, op, u))
    return res


def _model_vals(eng, m):
    return eng.model_inputs(m)


def _obj(cls, cn, name):
    """an object in an arbitrary valid state: .arg is any integer of the class range (the range
    invariant is what the constructor obligation 'ctor' establishes)"""
    lo, hi = rng(cn)
    o = cls.__new__(cls)
    o.arg = SInt.var(name, lo, hi)
    return o, o.arg.t


def _harness(eng, kind, ca, cb, op):
    A = getattr(M, ca)
    na = SIZES[ca]
    if kind == 'un':
        return _unary(eng, A, ca, op)
    a, at = _obj(A, ca, 'va')
    if cb == 'int':
        nb = na
        b = vb = _mkval('vb', 'int', na + 3)
        bt = vb.t
        cbn = None
    else:
        B = getattr(M, cb)
        nb = SIZES[cb]
        b, bt = _obj(B, cb, 'vb')
        cbn = cb
    # preconditions
    if op in ('<<', '>>'):
        cnt = bt if kind != 'refl' else at
        eng.assume(z3.And(cnt >= bvv(0), cnt <= bvv(2 * max(na, nb))))
    if op == '%':
        d = bt if kind != 'refl' else at
        eng.assume(d != bvv(0))
    if op == '**':
        # a ** e with the exponent a plain integer or a value of the same class (the statement fixes no class for a wider
        # exponent class); 0 <= e <= 2^n: every exponent of the class and the first one beyond; int ** fixed is 'rpow2'
        if kind == 'refl' or not (cb == 'int' or cb == ca) or na > 8:
            return ('SKIP',)
        POWBITS[0] = na + 1
        eng.assume(z3.And(bt >= bvv(0), bt <= bvv(1 << na)))
    try:
        if kind == 'refl':
            r = PYOP[op](b, a)        # int OP moduint -> reflected method of the moduint
            x, y = bt, at
        else:
            r = PYOP[op](a, b)
            x, y = at, bt
    except PathAbort:
        raise
    except Exception as e:
        m = eng.witness()
        return ('CEX', 'exc:' + type(e).__name__, 'raises %s: %s' % (type(e).__name__, e),
                dict(kind=kind, ca=ca, cb=cb, op=op, vals=eng.model_inputs(m), what='exception'))
    if op in CMP:
        want = spec_cmp(op, x, y)
        got = core.bool_term(r)
        if not isinstance(r, (bool, SBool)):
            return ('CEX', 'type', 'comparison returned %s' % type(r).__name__,
                    dict(kind=kind, ca=ca, cb=cb, op=op, vals=eng.model_inputs(eng.witness()), what='cmp-type'))
        st, m = eng.find(got != want)
        if st == 'unsat':
            # equal values hash equally
            if op == '==' and kind == 'bin' and cbn is not None:
                ha, hb = a.__hash__(), b.__hash__()
                st2, m2 = eng.find(z3.And(want, core.term_of(ha) != core.term_of(hb)))
                if st2 == 'sat':
                    return ('CEX', 'hash', 'equal values hash differently',
                            dict(kind=kind, ca=ca, cb=cb, op='hash', vals=eng.model_inputs(m2), what='hash'))
                if st2 != 'unsat':
                    return ('UNKNOWN', 'hash')
            return ('OK', 'cmp')
        if st == 'sat':
            return ('CEX', 'value', 'comparison differs from mathematics',
                    dict(kind=kind, ca=ca, cb=cb, op=op, vals=eng.model_inputs(m), what='cmp'))
        return ('UNKNOWN', op)
    # result class
    rc = type(r).__name__
    if cbn is None:
        ok_cls = (rc == ca)
    else:
        if na > nb:
            ok_cls = (rc == ca)
        elif nb > na:
            ok_cls = (rc == cbn)
        else:
            ok_cls = rc in (ca, cbn)
    if not ok_cls:
        m = eng.witness()
        return ('CEX', 'class', 'result class %s' % rc,
                dict(kind=kind, ca=ca, cb=cb, op=op, vals=eng.model_inputs(m), what='class', got=rc))
    want = reduce_term(spec_bin(op, x, y), rc)
    got = core.term_of(r.arg)
    st, m = eng.find(got != want)
    if st == 'unsat':
        return ('OK', rc)
    if st == 'sat':
        return ('CEX', 'value', 'result differs from exact arithmetic reduced into %s' % rc,
                dict(kind=kind, ca=ca, cb=cb, op=op, vals=eng.model_inputs(m), what='value'))
    return ('UNKNOWN', op)


def _unary(eng, A, ca, op):
    n = SIZES[ca]
    if op in ('ctor', 'hash'):
        va = _mkval('va', ca, n + 3)
        at = reduce_term(va.t, ca)
        a = A(va)
    else:
        a, at = _obj(A, ca, 'va')
    if op == 'rpow2':
        eng.assume(z3.And(at >= bvv(0), at <= bvv(min(n, 40))))
    data = dict(kind='un', ca=ca, cb=None, op=op)

    def cex(tag, desc, m):
        d = dict(data)
        d['vals'] = eng.model_inputs(m)
        d['what'] = tag
        return ('CEX', tag, desc, d)

    def decide(got, want, rc=None):
        st, m = eng.find(got != want)
        if st == 'unsat':
            return ('OK', rc or op)
        if st == 'sat':
            return cex('value', 'result differs from the mathematics', m)
        return ('UNKNOWN', op)
    try:
        if op == 'ctor':
            lo, hi = rng(ca)
            st, m = eng.find(z3.Or(core.term_of(a.arg) != at))
            if st == 'sat':
                return cex('value', 'constructor does not normalise', m)
            if st != 'unsat':
                return ('UNKNOWN', op)
            # copy-constructor from another width keeps the value modulo
            b = A(a)
            return decide(core.term_of(b.arg), at)
        if op == '~':
            r = ~a
            if type(r).__name__ != ca:
                return cex('class', 'result class %s' % type(r).__name__, eng.witness())
            return decide(core.term_of(r.arg), reduce_term(~at, ca))
        if op == 'neg':
            r = -a
            if type(r).__name__ != ca:
                return cex('class', 'result class %s' % type(r).__name__, eng.witness())
            return decide(core.term_of(r.arg), reduce_term(-at, ca))
        if op == 'abs':
            r = abs(a)
            rv = r.arg if isinstance(r, M.moduint) else r
            want = reduce_term(z3.If(at < 0, -at, at), ca)
            lo, hi = rng(ca)
            # the most negative value is examined on its own so that it has its own finding key
            st, m = eng.find(z3.And(at != bvv(lo), core.term_of(rv) != want))
            if st == 'sat':
                return cex('value', 'abs differs from the mathematics', m)
            if st != 'unsat':
                return ('UNKNOWN', op)
            if is_signed(ca):
                st, m = eng.find(z3.And(at == bvv(lo), core.term_of(rv) != want))
                if st == 'sat':
                    return cex('min', 'abs(%s(%d)) is not reduced into the type range' % (ca, lo), m)
                if st != 'unsat':
                    return ('UNKNOWN', op)
            return ('OK', op)
        if op == 'int':
            r = instr.sym_int(a)
            return decide(core.term_of(r), at)
        if op == 'hash':
            # two objects built from congruent integers are equal and hash equally
            vb = SInt.var('vb', -(1 << (n + 3)), 1 << (n + 3))
            b = A(vb)
            bt = reduce_term(vb.t, ca)
            ha, hb = a.__hash__(), b.__hash__()
            st, m = eng.find(z3.And(at == bt, core.term_of(ha) != core.term_of(hb)))
            if st == 'sat':
                return cex('hash', 'equal values hash differently', m)
            return ('OK', 'hash') if st == 'unsat' else ('UNKNOWN', op)
        if op.startswith('pow'):
            k = int(op[3:])
            r = a ** k
            if type(r).__name__ != ca:
                return cex('class', 'result class %s' % type(r).__name__, eng.witness())
            w = bvv(1)
            for _ in range(k):
                w = w * at
            return decide(core.term_of(r.arg), reduce_term(w, ca))
        if op == 'rpow2':
            # 2 ** x  (integer base): the mathematical power, not reduced; bounded exponent
            r = 2 ** a
            return decide(core.term_of(r), bvv(1) << at)
    except PathAbort:
        raise
    except Exception as e:
        return cex('exc:' + type(e).__name__, 'raises %s: %s' % (type(e).__name__, e), eng.witness())
    return ('SKIP',)


REPLAY = r'''
# replay of a C14 counterexample on the real miasmx.tools.modint (exit 1 = property violated)
import sys, operator as op
import miasmx.tools.modint as M
D = %(data)r
SIZES = dict(uint1=1, uint8=8, uint16=16, uint32=32, uint64=64, uint128=128, int8=8, int16=16, int32=32, int64=64, int128=128)
PYOP = {'+': op.add, '-': op.sub, '*': op.mul, '&': op.and_, '|': op.or_, '^': op.xor, '<<': op.lshift,
        '>>': op.rshift, '%%': op.mod, '==': op.eq, '!=': op.ne, '<': op.lt, '<=': op.le, '>': op.gt, '>=': op.ge, '**': op.pow}
def red(v, cn):
    n = SIZES[cn]; v %%= 1 << n
    if cn.startswith('int') and v >= 1 << (n - 1): v -= 1 << n
    return v
ca, cb, o, kind = D['ca'], D['cb'], D['op'], D['kind']
va = D['vals']['va']; vb = D['vals'].get('vb', 0)
A = getattr(M, ca); a = A(va); x = red(va, ca)
bad = False
try:
    if kind == 'un':
        if o == 'ctor': bad = a.arg != x or A(a).arg != x
        elif o == '~': r = ~a; bad = type(r) is not A or r.arg != red(~x, ca)
        elif o == 'neg': r = -a; bad = type(r) is not A or r.arg != red(-x, ca)
        elif o == 'abs': r = abs(a); bad = int(r) != red(abs(x), ca)
        elif o == 'int': bad = int(a) != x
        elif o == 'hash': b = A(vb); bad = (red(vb, ca) == x) and hash(a) != hash(b)
        elif o.startswith('pow'): k = int(o[3:]); r = a ** k; bad = type(r) is not A or r.arg != red(x ** k, ca)
        elif o == 'rpow2': bad = (2 ** a) != 2 ** x
    else:
        if cb == 'int': b = vb; y = vb; cbn = None
        else: b = getattr(M, cb)(vb); y = red(vb, cb); cbn = cb
        if kind == 'refl': r = PYOP[o](b, a); p, q = y, x
        else: r = PYOP[o](a, b); p, q = x, y
        if o == 'hash' or D.get('what') == 'hash':
            bad = (x == y) and hash(a) != hash(b)
        elif o in ('==', '!=', '<', '<=', '>', '>='):
            bad = (r is not PYOP[o](p, q))
        else:
            rc = type(r).__name__
            na, nb = SIZES[ca], SIZES.get(cb, 0)
            if cbn is None: okc = rc == ca
            elif na > nb: okc = rc == ca
            elif nb > na: okc = rc == cbn
            else: okc = rc in (ca, cbn)
            ref = pow(p, q, 1 << SIZES[rc]) if o == '**' else PYOP[o](p, q)
            bad = (not okc) or r.arg != red(ref, rc)
except Exception as e:
    print('exception', type(e).__name__, e); bad = True
print('C14 replay', D, '->', 'VIOLATED' if bad else 'holds')
sys.exit(1 if bad else 0)
'''


def make_replay(cnd):
    return REPLAY % {'data': cnd['data']}


def main(argv=None):
    a = common.tier_seed(argv)
    t0 = time.time()
    js = jobs(a.tier, a.seed)
    if a.only:
        js = [j for j in js if a.only in repr(j)]
    results, left = common.run_pool('vf.checks.c14', js, nproc=a.nproc,
                                    budget_s=900 if a.tier == 'quick' else 3600)
    cov = dict(states=0, transitions=0, obligations=0, proved=0, samples=[], solver_s=0.0, reached=0)
    cands, inconc, herr = [], list(left), []
    for r in results:
        if 'harness_error' in r:
            herr.append(r['harness_error'][-1500:])
            continue
        cov['states'] += r['paths']
        cov['transitions'] += r['queries']
        cov['obligations'] += r['obligations']
        cov['proved'] += r['proved']
        cov['reached'] += r['reached']
        cov['solver_s'] += r['solver_s']
        cands += r['candidates']
        inconc += r['inconclusive']
        if len(cov['samples']) < 12:
            cov['samples'] += r['samples'][:1]
    cov['solver_s'] = round(cov['solver_s'], 2)
    cov['jobs'] = len(js)
    cov['exhaustive'] = False
    cov['functions_encoded'] = ['miasmx.tools.modint:moduint.* (all operator methods, executed from source)',
                                'miasmx.tools.modint:modint.__init__', 'miasmx.tools.modint:moduint.maxcast']
    cov['bounds'] = ('constructor arguments and plain-int operands in [-2^(n+3), 2^(n+3)]; shift counts 0..2n; '
                     'divisor != 0; a ** e at 1 and 8 bits for every exponent 0 <= e <= 2^n (plain integer or same class; square-and-multiply statement of the power; wider classes: z3 flattens the nested products, out of reach), exponents {0,1,2,3} as separate obligations, and 2**x with x <= min(n,40); widths '
                     + ('1..64' if a.tier == 'quick' else '1..128') + ', all ordered class pairs')
    if cov['reached'] == 0:
        herr.append('vacuous: no obligation reached')
    assumptions = ['SInt proxy arithmetic is faithful to Python int (vf/selftest.py)', 'z3 5.1.0',
                   'CPython: equal ints hash equally (hash modelled as an uninterpreted function of the value)']
    rc = common.finish(PROP, a.tier, a.seed, 'model_checking', t0, cov, assumptions, cands, herr, inconc, make_replay)
    return rc


if __name__ == '__main__':
    sys.exit(main())
