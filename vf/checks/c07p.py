"""C07, programs and rep: after emul_lines() on a straight-line instruction sequence the symbolic machine state
equals the sequential composition of the lifted semantics.

The instruction sequences are drawn by VERIF_SEED from a pool of integer-core lines (assembled and decoded by
the real code); the machine starts from x86_machine() (registers bound to init_* symbols).  Reference:
S_0 = init symbols, S_{k+1} = apply(E1(lift(i_k)), S_k) with an SMT array for memory.  Assertion (one query per
resource): for all valuations of the init_* symbols and of initial memory, E1(machine.pool[r]) == S_n[r], and
the pool memory denotes the same array as the store chain (probe address).  Assumption (stated): the stack
region [init_esp-64, init_esp+64) and the data region [init_esi-64, init_esi+64) do not overlap - the symbolic
machine cannot decide aliasing between different symbolic bases.
rep: rep movsb/stosd/... with ecx = 0..4 (concrete) must equal that many single steps.
repe/repne cmps/scas (run_repz): byte values symbolic through the real emulator, final ecx/esi/edi/zf == the architectural loop.
"""
import random
import sys

import z3

from vf import ir2smt
from vf.symex import core
from vf.x86 import explore as E

POOL = [
    'mov eax, ebx', 'mov ecx, {I}', 'mov dl, {B}', 'mov bx, ax', 'add eax, ecx', 'sub ebx, {I}', 'xor edx, eax', 'and ecx, {I}', 'or eax, edx',
    'inc ecx', 'dec edx', 'neg eax', 'not ebx', 'lea eax, [ebx+ecx*4+{D}]', 'xchg eax, edx', 'movzx eax, bl', 'movsx ecx, dx', 'shl eax, {S}',
    'shr ebx, {S}', 'mov DWORD PTR [esi+{D}], eax', 'mov eax, DWORD PTR [esi+{D}]', 'mov BYTE PTR [esi+{D}], cl', 'mov dx, WORD PTR [esi+{D}]',
    'mov al, BYTE PTR [esi+{D}]', 'add DWORD PTR [esi+{D}], ebx', 'push eax', 'push ebx', 'pop ecx', 'pop edx', 'push {I}', 'mov ah, bl',
    'mov WORD PTR [esi+{D}], bx', 'add al, {B}', 'cmp eax, ebx', 'test ecx, edx', 'bswap eax', 'imul eax, ebx', 'mov DWORD PTR [esp+{P}], ecx',
    'mov ebx, DWORD PTR [esp+{P}]', 'sbb eax, edx', 'adc ecx, {I}', 'setne al', 'cmovb eax, ecx', 'mov bh, BYTE PTR [esi+{D}]',
]


# fixed interaction programs (run in every tier): a concrete value from one instruction meets a symbolic flag from another, then a
# conditional or partial-register write; flags consumed by a later instruction; stack round trips; memory written then re-read narrower
FIXED_PROGRAMS = [
    ['mov eax, 0x11223344', 'test ebx, ebx', 'setz ah'],
    ['mov eax, 0x11223344', 'mov edx, 0x55667788', 'test ebx, ebx', 'cmovz ax, dx'],
    ['mov ecx, 0x80000001', 'cmp ebx, edx', 'setb ch', 'setnb cl'],
    ['mov eax, 0xffffffff', 'add ebx, ecx', 'adc eax, 0'],
    ['mov eax, 0x12345678', 'cmp ebx, 5', 'sbb eax, eax'],
    ['mov edx, 0xa5a5a5a5', 'test ecx, ecx', 'setne dl', 'movzx eax, dl'],
    ['mov eax, 0x01020304', 'mov ah, bl', 'mov al, bh', 'bswap eax'],
    ['xor eax, eax', 'cmp ebx, ecx', 'setl al', 'lea edx, [eax+eax*4+7]'],
    ['mov eax, 0xdeadbeef', 'push eax', 'mov eax, ebx', 'pop ecx', 'xchg eax, ecx'],
    ['mov DWORD PTR [esi+4], 0x11223344', 'mov BYTE PTR [esi+5], cl', 'mov eax, DWORD PTR [esi+4]', 'mov dx, WORD PTR [esi+5]'],
    ['mov eax, 0x7fffffff', 'inc eax', 'seto bl', 'cmovo ecx, eax'],
    ['mov ecx, 0x00ff00ff', 'test edx, edx', 'cmovs cx, dx', 'not ecx'],
    ['mov eax, 0x10', 'shl eax, 4', 'test ebx, ebx', 'cmove ebx, eax', 'add ebx, eax'],
    ['mov edx, 0x33445566', 'cmp eax, ebx', 'sete dh', 'setne dl', 'shr edx, 8'],
]


# programs around a rep-prefixed string instruction whose concrete count also lives elsewhere (copied to / from another register,
# pushed, stored): (count, lines); the reference unrolls the string instruction `count` times and ends with ecx = 0
REP_PROGRAMS = [
    (3, ['cld', 'mov ecx, 3', 'mov edx, ecx', 'rep stosb']),
    (3, ['cld', 'mov eax, 3', 'mov ecx, eax', 'rep stosb']),
    (3, ['cld', 'mov ecx, 3', 'push ecx', 'rep stosb', 'pop ecx']),
    (2, ['cld', 'mov ecx, 2', 'mov ebx, ecx', 'rep movsd', 'add ebx, ecx']),
    (2, ['cld', 'mov ecx, 2', 'rep stosd', 'mov edx, ecx', 'inc edx']),
    (1, ['cld', 'mov ecx, 1', 'mov DWORD PTR [esp-8], ecx', 'rep lodsb', 'mov edx, DWORD PTR [esp-8]']),
    (0, ['cld', 'xor ecx, ecx', 'mov edx, ecx', 'rep stosb', 'dec edx']),
    (2, ['cld', 'mov edx, 2', 'mov ecx, edx', 'lea ebx, [ecx+ecx*2]', 'rep movsw', 'add edx, ebx']),
]


def repprog_build(item):
    """(instructions for the machine, instructions of the reference)"""
    A = E.A
    cnt, lines = item
    mach, ref = [], []
    for t in lines:
        if t.startswith('rep '):
            b = bytes([0xF3]) + bytes(A.x86mnemo.asm(t[4:])[0])
            ri = A.x86mnemo.dis(b)
            ri.offset = 0
            mach.append(ri)
            single = A.x86mnemo.dis(b[1:])
            single.offset = 0
            ref += [single] * cnt
            z = A.x86mnemo.dis(bytes(A.x86mnemo.asm('mov ecx, 0')[0]))
            z.offset = 0
            ref.append(z)
        else:
            i = A.x86mnemo.dis(bytes(A.x86mnemo.asm(t)[0]))
            i.offset = 0
            mach.append(i)
            ref.append(i)
    return mach, ref


def gen_programs(tier, seed):
    rnd = random.Random(seed)
    n = 30 if tier == 'quick' else 400
    out = [list(p) for p in FIXED_PROGRAMS]
    for k in range(n):
        ln = rnd.randint(1, 12)
        prog = []
        for _ in range(ln):
            t = rnd.choice(POOL)
            t = t.replace('{I}', str(rnd.choice([0, 1, 0x7f, 0x80, 0xffff, 0x12345678, 0xffffffff, rnd.getrandbits(32)])))
            t = t.replace('{B}', str(rnd.choice([0, 1, 0x7f, 0x80, 0xff])))
            t = t.replace('{S}', str(rnd.choice([1, 4, 8, 31])))
            t = t.replace('{D}', str(rnd.choice([0, 1, 2, 3, 4, 5, 6, 7, 8, 12])))
            t = t.replace('{P}', str(rnd.choice([0, 4, 8])))
            prog.append(t)
        out.append(prog)
    return out


def jobs(tier, seed):
    progs = gen_programs(tier, seed)
    js = [('prog', tier, progs[i:i + 5]) for i in range(0, len(progs), 5)]
    reps = []
    for mn in ('movsb', 'movsd', 'stosb', 'stosd', 'lodsb', 'movsw'):
        for cnt in range(0, 5):
            reps.append((mn, cnt))
    js.append(('rep', tier, reps))
    js.append(('repprog', tier, list(REP_PROGRAMS)))
    # repe / repne with the ZF termination test: byte values symbolic through the real emulator (E2)
    for mn in ('cmpsb', 'scasb', 'cmpsd', 'scasw'):
        for pfx in (0xF3, 0xF2):
            js.append(('repz', tier, [(mn, pfx, cnt) for cnt in ((0, 1, 2) if tier == 'quick' else (0, 1, 2, 3, 4))]))
    return js


def _decode(lines):
    A = E.A
    out = []
    off = 0
    for t in lines:
        b = bytes(A.x86mnemo.asm(t)[0])
        i = A.x86mnemo.dis(b)
        i.offset = off
        off += i.l
        out.append(i)
    return out


def _state0(c, SEM):
    st = {}
    for r, init in SEM.init_regs.items():
        st[(r.name, r.size)] = c.id(init.name, init.size)
    return st


def _reference(instrs, c, SEM, EH, X, M):
    """sequential composition under E1: returns (regs dict, memory term)"""
    st = _state0(c, SEM)
    mem = c.mem0
    for i in instrs:
        ci = ir2smt.Ctx(strict=False, flat=True)
        ci.ids = dict(c.ids)
        for k, v in st.items():
            ci.ids[k] = v
        ci.mem = ci.mem0 = mem
        eip = X.ExprInt(M.uint32(i.offset + i.l))
        affs = EH.get_instr_expr(i, eip, [])
        post = ir2smt.apply_affs(affs, ci)
        for k, v in post.regs.items():
            if k[0] == 'eip':
                continue
            st[k] = v
        mem = post.mem
        # identifiers first seen by this step are inputs of the whole program
        for k, v in ci.ids.items():
            if k not in c.ids:
                c.ids[k] = v
    return st, mem


def _pool_compare(machine, c, st, mem, find, X, assume):
    bad = []
    for r, v in machine.pool.pool_id.items():
        if not isinstance(r, X.ExprId) or (r.name, r.size) not in st:
            continue
        try:
            got = ir2smt.tr(v, c, want=r.size)
        except (ir2smt.IllTyped, ir2smt.Untranslatable) as ex:
            bad.append((r.name, 'pool entry is not well-formed: %s' % ex, None))
            continue
        want = st[(r.name, r.size)]
        if got.size() != want.size():
            if r.size == 1 and got.size() > 1:
                got = z3.Extract(0, 0, got)
            else:
                bad.append((r.name, 'width %d vs %d' % (got.size(), want.size()), None))
                continue
        s, m = find(z3.And(assume, got != want))
        if s == 'sat':
            bad.append((r.name, 'register %s differs from the sequential composition' % r.name, m))
        elif s != 'unsat':
            bad.append((r.name, 'unknown', None))
    b = z3.BitVec('probe_addr', 32)
    pb = z3.Select(c.mem0, b)
    for a_expr, (mexpr, vexpr) in machine.pool.pool_mem.items():
        try:
            at = c.fit(ir2smt.tr(mexpr.arg, c), 32, 'addr')
            vt = ir2smt.tr(vexpr, c, want=mexpr.size)
        except (ir2smt.IllTyped, ir2smt.Untranslatable) as ex:
            bad.append(('mem', 'pool memory entry is not well-formed: %s' % ex, None))
            continue
        nb = mexpr.size // 8
        vv = vt if vt.size() >= 32 else z3.ZeroExt(32 - vt.size(), vt)
        d = b - at
        byte = z3.Extract(7, 0, z3.LShR(vv, (z3.ZeroExt(vv.size() - 32, d) if vv.size() > 32 else d) * 8))
        pb = z3.If(z3.ULT(d, nb), byte, pb)
    s, m = find(z3.And(assume, pb != z3.Select(mem, b)))
    if s == 'sat':
        bad.append(('mem', 'memory differs from the sequential composition at some byte', m))
    elif s != 'unsat':
        bad.append(('mem', 'unknown', None))
    return bad


def run_repz(job, res):
    """repe/repne cmps/scas with a concrete count: memory contents and al/ax SYMBOLIC integers flowing through the real
    emulator (emul_full_expr forks at its termination test); on every path the final ecx, esi, edi and zf must equal the
    architectural loop (executes while count != 0; after each iteration stops if ZF == 0 under repe / ZF == 1 under repne)"""
    from vf.symex.core import SInt, Engine, PathAbort
    from vf.checks import c11
    import miasmx.arch.ia32_sem as SEM
    import miasmx.tools.emul_helper as EH
    import miasmx.expression.expression as X
    import miasmx.tools.modint as M
    _, tier, items = job
    for mn, pfx, cnt in items:
        res['programs'] = res.get('programs', 0) + 1
        size = {'b': 1, 'w': 2, 'd': 4}[mn[-1]]
        UT = {1: M.uint8, 2: M.uint16, 4: M.uint32}[size]
        title = '%s %s with ecx=%d' % ('repe' if pfx == 0xF3 else 'repne', mn, cnt)
        b = bytes([pfx]) + bytes(E.A.x86mnemo.asm(mn)[0])
        eng = Engine(width=80, timeout_ms=20000, max_paths=3000, max_seconds=300)

        def fn(eng):
            c11.reset_singletons()
            top = (1 << (8 * size)) - 1
            av = [SInt.var('a%d' % k, 0, top) for k in range(cnt)]
            bv = [SInt.var('b%d' % k, 0, top) for k in range(cnt)]
            acc = SInt.var('acc', 0, top)
            ri = E.A.x86mnemo.dis(b)
            ri.offset = 0
            machine = EH.x86_machine()
            S = lambda d, s_: machine.eval_instr([X.ExprAff(d, s_)])
            S(SEM.ecx, X.ExprInt(M.uint32(cnt)))
            S(SEM.esi, X.ExprInt(M.uint32(0x1000)))
            S(SEM.edi, X.ExprInt(M.uint32(0x2000)))
            S(SEM.df, X.ExprInt(M.uint32(0)))
            S(SEM.eax, X.ExprInt(M.uint32(acc)))
            # the flag left by earlier instructions is an arbitrary concrete bit: the loop must not look at it before its first step
            zf0 = SInt.var('zf0', 0, 1)
            S(SEM.zf, X.ExprInt(M.uint32(zf0)))
            for k in range(cnt):
                S(X.ExprMem(X.ExprInt(M.uint32(0x1000 + k * size)), 8 * size), X.ExprInt(UT(av[k])))
                S(X.ExprMem(X.ExprInt(M.uint32(0x2000 + k * size)), 8 * size), X.ExprInt(UT(bv[k])))
            try:
                EH.emul_lines(machine, [ri])
            except PathAbort:
                raise
            except Exception as ex:
                return ('EXC', type(ex).__name__, str(ex)[:60], eng.model_inputs(eng.witness()))
            # architectural loop as terms
            W = core.Ctx.W
            done = z3.BoolVal(False)
            executed = z3.BitVecVal(0, W)
            zf_t = (core.term_of(zf0) == 1)
            for k in range(cnt):
                active = z3.Not(done)
                left = core.term_of(acc) if mn.startswith('scas') else core.term_of(av[k])
                eq = (left == core.term_of(bv[k]))
                zf_t = z3.If(active, eq, zf_t)
                executed = z3.If(active, executed + 1, executed)
                stop = z3.Not(eq) if pfx == 0xF3 else eq
                done = z3.Or(done, z3.And(active, stop))
            out = []
            for nm, reg, want in (('ecx', SEM.ecx, z3.BitVecVal(cnt, W) - executed),
                                  ('esi', SEM.esi, z3.BitVecVal(0x1000, W) + (executed * size if mn.startswith('cmps') else 0)),
                                  ('edi', SEM.edi, z3.BitVecVal(0x2000, W) + executed * size)):
                got = machine.eval_expr(machine.pool[reg], {})
                if not isinstance(got, X.ExprInt):
                    return ('CEX', nm, 'final %s is not a constant: %s' % (nm, got), eng.model_inputs(eng.witness()))
                st_, m = eng.find(z3.Extract(31, 0, core.term_of(got.arg.arg)) != z3.Extract(31, 0, want))
                if st_ == 'sat':
                    return ('CEX', nm, 'final %s differs from the architectural loop' % nm, eng.model_inputs(m))
                if st_ != 'unsat':
                    return ('ABORT', 'unknown')
            if True:
                got = machine.eval_expr(machine.pool[SEM.zf], {})
                if not isinstance(got, X.ExprInt):
                    return ('CEX', 'zf', 'final zf is not a constant: %s' % got, eng.model_inputs(eng.witness()))
                st_, m = eng.find((z3.Extract(0, 0, core.term_of(got.arg.arg)) == 1) != zf_t)
                if st_ == 'sat':
                    return ('CEX', 'zf', 'final zf differs from the architectural loop', eng.model_inputs(m))
                if st_ != 'unsat':
                    return ('ABORT', 'unknown')
            return ('OK',)
        rs = eng.explore(fn)
        res['paths'] += eng.stats['paths']
        res['queries'] += eng.stats['queries']
        res['solver_s'] += eng.stats['solver_s']
        for u in eng.unexplored:
            res['inconclusive'].append('%s: %s' % (title, u))
        seen = set()
        okc = 0
        for r in rs:
            res['obligations'] += 1
            if r[0] == 'OK':
                res['proved'] += 1
                okc += 1
            elif r[0] in ('CEX', 'EXC'):
                key = 'repz:%s:%s:%s' % (r[1], 'repe' if pfx == 0xF3 else 'repne', mn)
                if key in seen:
                    continue
                seen.add(key)
                res['candidates'].append({'key': key, 'desc': '%s: %s with %s' % (title, r[2], r[3]),
                                          'data': {'kind': 'repz', 'item': [mn, pfx, cnt], 'res': r[1], 'vals': r[3], 'exc': r[0] == 'EXC'}})
            else:
                res['inconclusive'].append('%s: %s' % (title, r[1] if len(r) > 1 else r[0]))
        if okc:
            res['nontrivial'] += 1
            if len(res['samples']) < 2:
                res['samples'].append({'program': title, 'paths': len(rs), 'verdict': 'final ecx/esi/edi/zf equal the architectural loop on %d path(s), all memory bytes symbolic' % okc})


def run(job, res):
    if job[0] == 'repz':
        return run_repz(job, res)
    from vf.checks import c11
    import miasmx.arch.ia32_sem as SEM
    import miasmx.tools.emul_helper as EH
    import miasmx.expression.expression as X
    import miasmx.tools.modint as M
    kind, tier, items = job
    s = z3.Solver()
    s.set('timeout', 60000)

    def find(cond):
        s.push()
        s.add(cond)
        r = str(s.check())
        m = s.model() if r == 'sat' else None
        s.pop()
        res['queries'] += 1
        return r, m
    for it in items:
        res['programs'] = res.get('programs', 0) + 1
        c11.reset_singletons()
        try:
            if kind == 'prog':
                lines = it
                instrs = _decode(lines)
                machine = EH.x86_machine()
                EH.emul_lines(machine, instrs)
                title = ' ; '.join(lines)
            elif kind == 'repprog':
                minstrs, instrs = repprog_build(it)
                machine = EH.x86_machine()
                EH.emul_lines(machine, minstrs)
                title = ' ; '.join(it[1])
            else:
                mn, cnt = it
                b = bytes([0xF3]) + bytes(E.A.x86mnemo.asm(mn)[0])
                ri = E.A.x86mnemo.dis(b)
                ri.offset = 0
                machine = EH.x86_machine()
                machine.pool[SEM.ecx] = X.ExprInt(M.uint32(cnt))
                machine.pool[SEM.df] = X.ExprInt(M.uint32(0))
                EH.emul_lines(machine, [ri])
                single = E.A.x86mnemo.dis(b[1:])
                single.offset = 0
                instrs = [single] * cnt
                title = 'rep %s with ecx=%d' % (mn, cnt)
        except Exception as ex:
            from vf.checks import c10
            res['obligations'] += 1
            key = 'emul-' + c10.exc_key(kind, ex)
            res['candidates'].append({'key': key, 'desc': '%s: emulation raises %s: %s' % (it, type(ex).__name__, str(ex)[:60]),
                                      'data': {'kind': kind, 'item': it, 'res': 'exc', 'vals': {}}})
            continue
        c = ir2smt.Ctx(strict=False, flat=True)
        try:
            st, mem = _reference(instrs, c, SEM, EH, X, M)
        except (ir2smt.IllTyped, ir2smt.Untranslatable) as ex:
            res['inconclusive'].append('%s: reference not translatable: %s' % (title, ex))
            continue
        if kind == 'rep':
            # reference starts from the same concrete ecx / df and ends with ecx = 0
            c2 = c
            sub = [(c.id('init_ecx', 32), z3.BitVecVal(it[1], 32)), (c.id('init_df', 1), z3.BitVecVal(0, 1))]
            st = dict((k, z3.substitute(v, *sub)) for k, v in st.items())
            mem = z3.substitute(mem, *sub)
            st[('ecx', 32)] = z3.BitVecVal(0, 32)
        esp0, esi0 = c.id('init_esp', 32), c.id('init_esi', 32)
        assume = z3.And(z3.UGT(esp0 - esi0, 256), z3.UGT(esi0 - esp0, 256), z3.UGT(esp0, 0x1000), z3.ULT(esp0, 0xFFFFF000),
                        z3.UGT(esi0, 0x1000), z3.ULT(esi0, 0xFFFFF000))
        if kind in ('rep', 'repprog'):
            edi0 = c.id('init_edi', 32)
            assume = z3.And(assume, z3.UGT(edi0 - esi0, 256), z3.UGT(esi0 - edi0, 256), z3.UGT(edi0 - esp0, 256), z3.UGT(esp0 - edi0, 256))
        bad = _pool_compare(machine, c, st, mem, find, X, assume)
        res['obligations'] += 1
        real = [b_ for b_ in bad if b_[2] is not None]
        if not bad:
            res['proved'] += 1
            res['nontrivial'] += 1
            if len(res['samples']) < 2:
                res['samples'].append({'program': title, 'verdict': 'every register and every memory byte of the final symbolic state equals the sequential composition (unsat)'})
        for rn, desc, m in bad:
            if m is None:
                res['inconclusive'].append('%s: %s %s' % (title, rn, desc))
                continue
            vals = {}
            for (nm, sz), v in c.ids.items():
                if nm.startswith('init_'):
                    vals[nm] = m.eval(v, model_completion=True).as_long()
            key = '%s:%s:%s' % (kind, rn, (it[0] if kind == 'rep' else '+'.join(sorted(set(l.split()[0] for l in (it[1] if kind == 'repprog' else it))))))
            res['candidates'].append({'key': key, 'desc': '%s: %s' % (title, desc),
                                      'data': {'kind': kind, 'item': it, 'res': rn, 'vals': vals}})


REPLAY = r'''
# replay of a C07 program counterexample: emul_lines on the real code vs the sequential composition (exit 1 = they differ)
import sys
import z3
import miasmx.arch.ia32_arch as A, miasmx.arch.ia32_reg as R
import miasmx.arch.ia32_sem as SEM
import miasmx.tools.emul_helper as EH
import miasmx.expression.expression as X
import miasmx.tools.modint as M
from vf import ir2smt
from vf.x86 import explore as E
from vf.checks import c07p
E.A = A; E.R = R
D = %(data)r
it = D['item']; kind = D['kind']
res = {'queries': 0}
if kind == 'repz':
    mn, pfx, cnt = it; V = D['vals']; size = {'b': 1, 'w': 2, 'd': 4}[mn[-1]]; UT = {1: M.uint8, 2: M.uint16, 4: M.uint32}[size]
    b = bytes([pfx]) + bytes(A.x86mnemo.asm(mn)[0]); ri = A.x86mnemo.dis(b); ri.offset = 0
    av = [V.get('a%%d' %% k, 0) for k in range(cnt)]; bv = [V.get('b%%d' %% k, 0) for k in range(cnt)]; acc = V.get('acc', 0)
    mch = EH.x86_machine(); S = lambda d, s_: mch.eval_instr([X.ExprAff(d, s_)])
    S(SEM.ecx, X.ExprInt(M.uint32(cnt))); S(SEM.esi, X.ExprInt(M.uint32(0x1000))); S(SEM.edi, X.ExprInt(M.uint32(0x2000))); S(SEM.df, X.ExprInt(M.uint32(0))); S(SEM.eax, X.ExprInt(M.uint32(acc))); S(SEM.zf, X.ExprInt(M.uint32(V.get('zf0', 0))))
    for k in range(cnt):
        S(X.ExprMem(X.ExprInt(M.uint32(0x1000 + k * size)), 8 * size), X.ExprInt(UT(av[k]))); S(X.ExprMem(X.ExprInt(M.uint32(0x2000 + k * size)), 8 * size), X.ExprInt(UT(bv[k])))
    try:
        EH.emul_lines(mch, [ri])
    except Exception as ex:
        print('emulation raises', type(ex).__name__, ex); print('C07 replay: VIOLATED'); sys.exit(1)
    n = 0; zf = V.get('zf0', 0)
    for k in range(cnt):
        eq = ((acc if mn.startswith('scas') else av[k]) == bv[k]); zf = int(eq); n += 1
        if (pfx == 0xF3 and not eq) or (pfx == 0xF2 and eq): break
    want = {'ecx': cnt - n, 'esi': 0x1000 + (n * size if mn.startswith('cmps') else 0), 'edi': 0x2000 + n * size}
    want['zf'] = zf
    bad = False
    for nm, w in want.items():
        got = mch.eval_expr(mch.pool[getattr(SEM, nm)], {})
        ok = isinstance(got, X.ExprInt) and int(got.arg) == w
        print(nm, 'machine:', got, 'architectural loop: %%#x' %% w, '' if ok else '  <-- differs')
        bad = bad or not ok
    print('C07 replay:', 'VIOLATED' if bad else 'holds'); sys.exit(1 if bad else 0)
if D['res'] == 'exc':
    try:
        if kind == 'prog': EH.emul_lines(EH.x86_machine(), c07p._decode(it))
        elif kind == 'repprog': EH.emul_lines(EH.x86_machine(), c07p.repprog_build(it)[0])
        else:
            b = bytes([0xF3]) + bytes(A.x86mnemo.asm(it[0])[0]); ri = A.x86mnemo.dis(b); ri.offset = 0
            mch = EH.x86_machine(); mch.pool[SEM.ecx] = X.ExprInt(M.uint32(it[1])); mch.pool[SEM.df] = X.ExprInt(M.uint32(0)); EH.emul_lines(mch, [ri])
        print('no exception'); print('C07 replay: holds'); sys.exit(0)
    except Exception as ex:
        print('emulation raises', type(ex).__name__, ex); print('C07 replay: VIOLATED'); sys.exit(1)
if kind == 'prog':
    instrs = c07p._decode(it); machine = EH.x86_machine(); EH.emul_lines(machine, instrs); print(' ; '.join(it))
elif kind == 'repprog':
    minstrs, instrs = c07p.repprog_build(it); machine = EH.x86_machine(); EH.emul_lines(machine, minstrs); print(' ; '.join(it[1]))
else:
    mn, cnt = it
    b = bytes([0xF3]) + bytes(A.x86mnemo.asm(mn)[0]); ri = A.x86mnemo.dis(b); ri.offset = 0
    machine = EH.x86_machine(); machine.pool[SEM.ecx] = X.ExprInt(M.uint32(cnt)); machine.pool[SEM.df] = X.ExprInt(M.uint32(0))
    EH.emul_lines(machine, [ri]); single = A.x86mnemo.dis(b[1:]); single.offset = 0; instrs = [single] * cnt; print('rep', mn, 'ecx =', cnt)
c = ir2smt.Ctx(strict=False, flat=True)
st, mem = c07p._reference(instrs, c, SEM, EH, X, M)
if kind == 'rep':
    sub = [(c.id('init_ecx', 32), z3.BitVecVal(it[1], 32)), (c.id('init_df', 1), z3.BitVecVal(0, 1))]
    st = dict((k, z3.substitute(v, *sub)) for k, v in st.items()); mem = z3.substitute(mem, *sub); st[('ecx', 32)] = z3.BitVecVal(0, 32)
s = z3.Solver()
def find(cond):
    s.push(); s.add(cond); r = str(s.check()); m = s.model() if r == 'sat' else None; s.pop(); return r, m
esp0, esi0, edi0 = c.id('init_esp', 32), c.id('init_esi', 32), c.id('init_edi', 32)
assume = z3.And(z3.UGT(esp0 - esi0, 256), z3.UGT(esi0 - esp0, 256), z3.UGT(esp0, 0x1000), z3.ULT(esp0, 0xFFFFF000), z3.UGT(esi0, 0x1000), z3.ULT(esi0, 0xFFFFF000))
if kind in ('rep', 'repprog'): assume = z3.And(assume, z3.UGT(edi0 - esi0, 256), z3.UGT(esi0 - edi0, 256), z3.UGT(edi0 - esp0, 256), z3.UGT(esp0 - edi0, 256))
bad = [b_ for b_ in c07p._pool_compare(machine, c, st, mem, find, X, assume) if b_[2] is not None and b_[0] == D['res']]
for rn, desc, m in bad: print(rn, ':', desc, '| machine state:', machine.pool.pool_id.get(getattr(SEM, rn, None)) if rn != 'mem' else '')
print('C07 replay:', 'VIOLATED' if bad else 'holds')
sys.exit(1 if bad else 0)
'''


def make_replay(cnd):
    return REPLAY % {'data': cnd['data']}
