"""C09 - Intel and AT&T renderings denote the same instruction (partial claim: the miasmX-parser clause).

Solver level.  On every path of the symbolic decoder exploration (symbolic bytes: every immediate / displacement of
the row at once) the REAL renderer runs in the engine's render mode (symbolic numbers are printed as placeholder
numerals, sign decided by a fork) for the Intel and for the AT&T syntax; each text goes through the REAL matching
parser (x86mnemo.asm / asm_att) with the placeholders mapped back to the symbolic values right after lexing; the
obligation "the original bytes are among the candidates" is an SMT validity query under the path condition, i.e. it is
decided for all byte values of the path.  Operand order, size suffixes, sigils, memory operand layout and the fsub/fdiv
reversal are all exercised through this round trip: a rendering that denotes another instruction re-assembles to
other bytes.
Quantifier.  The property's round trip can only hold for canonical encodings (no meaning-free prefix, no ignored
bit, the form an assembler picks): a miss is reported only if the original bytes at the solver's witness are the
encoding the reference assembler produces - objdump's text of the bytes, assembled by GNU as, gives the bytes back
(a criterion that does not look at miasmX's rendering, which may be the wrong part).  Rendering crashes are C10's.
Arbiter level (witnesses, labelled so): for instructions a compiler emits (no raw relative-branch displacement, no
absolute numeric memory operand) the concrete rendering at the path witness - one per operand shape - must be accepted
by GNU as in the matching syntax mode and assemble to an encoding that objdump reads as the same instruction as the
original bytes (keys gas-rejects / gas-differs).  NOT modelled: digit-string <-> integer conversion.
"""
import sys
import time

import z3

from vf import common
from vf.symex import core
from vf.symex.core import PathAbort
from vf.x86 import explore as E
from vf.x86 import asmdrive as AD
from vf.x86 import roundtrip as RT
from vf.oracles import gas
from vf.oracles import objdump as OD
from vf.checks import c05, c10

PROP = 'C09'


def worker_init():
    AD.worker_init()


def jobs(tier, seed, syntaxes=('intel', 'att'), nsample=12):
    import random
    if E.A is None:
        common.env_setup()
        worker_init()
    ps = [(), (0x66,)] if tier == 'quick' else [(), (0x66,), (0x67,)]
    ej = E.make_jobs(tier, seed, prefix_sets=ps, sib='min', per_signature=(tier == 'quick'))
    if tier == 'quick':
        rnd = random.Random(seed)
        core_rows = [j for j in ej if j[4] in QUICK_ALWAYS]
        rest = [j for j in ej if j[4] not in QUICK_ALWAYS]
        rnd.shuffle(rest)
        ej = core_rows + rest[:nsample]
        # every other row in the thinnest ModRM slice (mnemonic-specific rendering rules are per row: a sample of rows would miss them)
        chosen = set((j[0], j[1], j[2]) for j in ej)
        # ... also under the operand-size prefix: the 16-bit forms have their own suffix / keyword rules (movzbw, cbtw, pushw ...)
        for j in E.make_jobs(tier, seed, prefix_sets=[(), (0x66,)], sib='one', per_signature=False):
            first = j[1][0] if j[1] else min(j[2])
            if j[0] == (0x66,) and 0xd8 <= first <= 0xdf:
                continue        # x87 escape rows: the operand-size prefix does not select another rendering (time budget of the quick tier)
            if (j[0], j[1], j[2]) not in chosen:
                ej.append(j)
    # scalar SSE forms exist only under the mandatory prefixes f2 / f3
    for j in E.make_jobs(tier, seed, prefix_sets=[(0xF2,), (0xF3,)], sib='one' if tier == 'quick' else 'min', per_signature=False):
        if E._row_is_mmx(j[1], j[2]):
            ej.append(j)
    ej.sort(key=lambda j: (0 if (j[4] in ('imul', 'test', 'mov', 'add', 'shld', 'shrd') and j[3] == 'min') else 1))     # longest jobs first
    return [('rt', j, tier, sx) for j in ej for sx in syntaxes]


QUICK_ALWAYS = ('mov', 'push', 'lea', 'jmp', 'call', 'fsub', 'fsubr', 'fdiv', 'fdivr', 'fsubp', 'fdivp', 'fsubrp', 'fdivrp', 'shl', 'movzx', 'in', 'out', 'ret', 'enter',
                'xchg', 'test', 'fld', 'fstp', 'movq', 'movd', 'les', 'bound', 'cmpxchg8b', 'fadd', 'faddp')


def run_rt(job, res, which='C09'):
    _, ejob, tier, sx = job
    att = (sx == 'att')
    prefixes, opc, last, sibmode, rowname = ejob
    title = '%s round trip %s|%s%s %s' % (sx, ' '.join('%02x' % p for p in prefixes), ' '.join('%02x' % b for b in opc), '' if last is None else ' {%02x..}' % last[0], rowname)
    misses = []

    def on_path(eng, d):
        if d.kind != 'ok':
            return ('SKIP',)
        i = d.instr
        name = i.m.name
        try:
            txt, rm = RT.render(eng, i, att)
        except PathAbort:
            raise
        except Exception as ex:
            return ('SKIP', 'render raises (C10)')
        if not isinstance(txt, str) or '<sym' in txt:
            return ('ABORT', 'rendering used a formatting path that is not modelled')
        orig = d.data.items[:i.l]
        afs = E.A.x86_afs
        absmem = any(isinstance(a, dict) and a.get(afs.ad) and not any(isinstance(k_, int) for k_ in a) for a in i.arg)
        nimm = sum(1 for a in i.arg if isinstance(a, dict) and not a.get(afs.ad) and afs.imm in a and not any(isinstance(k_, int) for k_ in a))
        notcc = absmem or (name in ('jmp', 'call') and nimm >= 2)
        try:
            cands = RT.asm_text(txt, rm, att)
        except PathAbort:
            raise
        except Exception as ex:
            m = eng.witness()
            return ('MISS', 'parser-raises:%s:%s' % (type(ex).__name__, name), 'the %s parser raises %s on the rendering' % (sx, type(ex).__name__),
                    RT.concrete_text(txt, rm, m), E.witness_bytes(eng, d, m)[:i.l])
        if not isinstance(cands, list):
            return ('ABORT', 'assembler returned %s' % type(cands).__name__)
        r = RT.contains(eng, cands, orig)
        if r is True:
            m0 = eng.witness()
            return ('OK', name, RT.concrete_text(txt, rm, m0), E.witness_bytes(eng, d, m0)[:i.l], notcc)
        if r is None:
            return ('ABORT', 'membership query unknown')
        return ('MISS', 'not-reproduced:%s' % name, 'assembling the %s rendering gives %d candidate(s), none is the original encoding' % (sx, len(cands)),
                RT.concrete_text(txt, rm, r), E.witness_bytes(eng, d, r)[:i.l], notcc)
    eng, rs = E.explore(ejob, on_path, max_paths=20000, max_seconds=300 if tier == 'quick' else 1200)
    res['paths'] += eng.stats['paths']
    res['queries'] += eng.stats['queries']
    res['solver_s'] += eng.stats['solver_s']
    for u in eng.unexplored:
        res['inconclusive'].append('%s: %s' % (title, u))
    ok = 0
    for r in rs:
        if r[0] == 'OK':
            ok += 1
            res['obligations'] += 1
            res['proved'] += 1
        elif r[0] == 'MISS':
            res['obligations'] += 1
            misses.append(r)
        elif r[0] == 'SKIP':
            if len(r) > 1:
                res['render_raises'] = res.get('render_raises', 0) + 1
        else:
            res['inconclusive'].append('%s: %s' % (title, r[1] if len(r) > 1 else r[0]))
    # arbiter clause (witness level, labelled so): for instructions a compiler emits - no raw relative-branch displacement, no
    # absolute numeric memory operand - GNU as must accept the rendering and assemble it to an encoding of the same instruction
    if which == 'C09':
        arb = {}
        for r in rs:
            if r[0] == 'OK' and len(r) > 3:
                nm, text, byts, notcc = r[1], r[2], r[3], r[4]
            elif r[0] == 'MISS' and len(r) > 5:
                nm, text, byts, notcc = r[1].split(':')[-1], r[3], r[4], r[5]
            else:
                continue
            if notcc or not compiler_emitted(nm, text, att):
                continue
            arb.setdefault((nm, shape_of(text, False)), (nm, text, byts))
        items = list(arb.values())[:500]
        if items:
            refs = gas.reference([canon_text(t, att) for _, t, _ in items], att=att, want_bytes=True)
            ods = OD.disassemble([bytes(b) for _, _, b in items])
            reported = set()
            for (nm, text, byts), ref, od in zip(items, refs, ods):
                res['arbiter_witnesses'] = res.get('arbiter_witnesses', 0) + 1
                v = arbiter_verdict(ref, od, bytes(byts))
                if v is None:
                    res['arbiter_agree'] = res.get('arbiter_agree', 0) + 1
                    continue
                if v[0] == 'skip':
                    continue
                key = '%s:%s:%s:%s' % (sx, v[0], nm, shape_of(text, True))
                if key in reported:
                    continue
                reported.add(key)
                res['candidates'].append({'key': key, 'desc': '%s: %r for %s: %s' % (title, text, bytes(byts).hex(), v[1]),
                                          'data': {'bytes': list(byts), 'att': att, 'prop': which, 'arbiter': v[0]}})
    # canonicity filter (GNU as on the concrete rendering at the witness)
    if misses:
        # one representative per (kind, mnemonic, concrete operand shape); the finding key abstracts register names to classes
        uniq = {}
        for r in misses:
            uniq.setdefault((r[1], shape_of(r[3], False)), r)
        ms = list(uniq.values())[:600]
        # canonical = the encoding the reference assembler produces for the instruction: objdump's own text of the original
        # bytes, assembled by GNU as, must give the original bytes back (independent of miasmX's rendering)
        ods = OD.disassemble([bytes(r[4]) for r in ms])
        texts = [(od[1] if od is not None and od[0] == len(r[4]) and '(bad)' not in od[1] else 'nop') for od, r in zip(ods, ms)]
        refs = gas.reference([objdump_to_gas(t) for t in texts], att=False, want_bytes=True)
        reported = set()
        for r, ref, od in zip(ms, refs, ods):
            if od is None or od[0] != len(r[4]) or '(bad)' in od[1] or ref is None:
                res['outside_noncanonical'] = res.get('outside_noncanonical', 0) + 1
                continue
            if bytes(ref[2]) != bytes(r[4]):
                res['outside_noncanonical'] = res.get('outside_noncanonical', 0) + 1
                continue
            key = '%s:%s:%s' % (sx, r[1], shape_of(r[3], True))
            if key in reported:
                continue
            reported.add(key)
            res['candidates'].append({'key': key, 'desc': '%s: %s: %r for %s' % (title, r[2], r[3], bytes(r[4]).hex()),
                                      'data': {'bytes': list(r[4]), 'att': att, 'prop': which}})
    if ok:
        res['nontrivial'] += 1
        if len(res['samples']) < 2:
            res['samples'].append({'row': title, 'paths': len(rs), 'verdict': 'rendering re-assembles to the original bytes on %d path(s), all immediates / displacements symbolic' % ok})


BRANCHES = ('jmp', 'call', 'loop', 'loope', 'loopne', 'jecxz', 'jcxz', 'xbegin')


def compiler_emitted(name, text, att):
    """the property's restriction of the GNU-as clause: no raw relative-branch displacement, no absolute numeric memory operand"""
    import re
    sh = shape_of(text, False)
    if (name in BRANCHES or (name.startswith('j') and len(name) <= 4)) and re.fullmatch(r'[-+]?N', sh.replace('$', '')):
        return False
    if att:
        for op in sh.split(','):
            op = op.strip()
            if re.fullmatch(r'(%[a-z]s:)?-?N', op) or re.fullmatch(r'\*-?N', op):
                return False
    else:
        if re.search(r'(PTR|\[)-?N\]?(,|$)', sh) or re.search(r'[a-z]s:-?N(,|$)', sh) or re.search(r'PTR-?N', sh):
            return False
    return True


def arbiter_verdict(ref, od, b):
    """ref: gas.reference(..., want_bytes=True) entry for the rendering; od: objdump of the original bytes b"""
    if od is None:
        return ('skip', 'objdump does not decode the original bytes')
    try:
        co = OD.canon(od[1], 'objdump', addr=0, length=od[0], opsize16=(b[:1] == b'\x66' or b[1:2] == b'\x66'))
    except OD.Unparsed:
        return ('skip', 'objdump output of the original bytes is not parsed')
    if od[0] != len(b):
        return ('skip', 'objdump reads another length')
    if ref is None:
        return ('gas-rejects', 'GNU as rejects the rendering (or warns)')
    try:
        cr = OD.canon(ref[1], 'objdump', addr=0, length=ref[0], opsize16=(bytes(ref[2])[:1] == b'\x66' or bytes(ref[2])[1:2] == b'\x66'))
    except OD.Unparsed:
        return ('skip', 'objdump output of the GNU as encoding is not parsed')
    # a 16/32-bit general register next to a segment register is one operand (the operand-size prefix is meaning-free there)
    def widen(c_):
        p_, m_, ops_ = c_
        if m_ == 'mov' and any(o[0] == 'reg' and o[1] in ('es', 'cs', 'ss', 'ds', 'fs', 'gs') for o in ops_):
            ops_ = [('reg', 'e' + o[1]) if (o[0] == 'reg' and o[1] in OD.REG16) else o for o in ops_]
        return p_, m_, ops_
    cr, co = widen(cr), widen(co)
    why = OD.same(cr, co)
    if why:
        return ('gas-differs', 'GNU as reads the rendering as %r, the original bytes are %r (%s)' % (ref[1], od[1], why))
    return None


_REGCLASS = None


def shape_of(txt, classes):
    """operand shape of a rendering: numbers -> N; with classes=True register names -> their class"""
    import re
    global _REGCLASS
    if _REGCLASS is None:
        _REGCLASS = {}
        for cl, names in (('r32', 'eax ecx edx ebx esp ebp esi edi'), ('r16', 'ax cx dx bx sp bp si di'), ('r8', 'al cl dl bl ah ch dh bh'),
                          ('sreg', 'es cs ss ds fs gs'), ('mm', 'mm0 mm1 mm2 mm3 mm4 mm5 mm6 mm7'), ('xmm', 'xmm0 xmm1 xmm2 xmm3 xmm4 xmm5 xmm6 xmm7'),
                          ('cr', 'cr0 cr1 cr2 cr3 cr4 cr5 cr6 cr7'), ('dr', 'dr0 dr1 dr2 dr3 dr4 dr5 dr6 dr7')):
            for n in names.split():
                _REGCLASS[n] = cl
    parts = txt.split(None, 1)
    ops = parts[1] if len(parts) > 1 else ''
    ops = re.sub(r'0[xX][0-9a-fA-F]+|\d+', 'N', ops)
    ops = re.sub(r'st\(N\)', 'st(i)', ops)
    if classes:
        ops = re.sub(r'[a-z][a-z0-9]+', lambda m_: _REGCLASS.get(m_.group(0), m_.group(0)), ops)
    return ''.join(ops.split())


def objdump_to_gas(t):
    """objdump's Intel text as GNU as input; 'nop' (never equal to the original bytes) when objdump had to print a prefix as a word of
    its own (data16, addr16, a segment name ...): such a prefix is meaning-free there, the encoding is not canonical"""
    import re
    t = re.sub(r'\s*[#<].*$', '', t).strip()
    words = t.split()
    while words and words[0] in OD.PREFIX_WORDS:
        words = words[1:]
    if words and words[0] in OD.SUPERFLUOUS:
        return 'nop'
    if any(w in OD.SUPERFLUOUS for w in t.split()[:3] if not w.endswith(',')) and t.split()[0] in OD.SUPERFLUOUS | OD.PREFIX_WORDS:
        # e.g. 'repz data16 ...'
        if any(w in OD.SUPERFLUOUS for w in t.split()[:3]):
            return 'nop'
    return t


def is_canonical(b):
    od = OD.disassemble([bytes(b)])[0]
    if od is None or od[0] != len(b) or '(bad)' in od[1]:
        return None
    ref = gas.reference([objdump_to_gas(od[1])], att=False, want_bytes=True)[0]
    if ref is None:
        return None
    return bytes(ref[2]) == bytes(b)


def canon_text(txt, att):
    """miasmX pads the mnemonic column; GNU as does not care"""
    return ' '.join(txt.split())


def run_job(job):
    res = {'paths': 0, 'queries': 0, 'solver_s': 0.0, 'obligations': 0, 'proved': 0, 'candidates': [],
           'inconclusive': [], 'samples': [], 'programs': 1, 'nontrivial': 0}
    run_rt(job, res)
    return res


REPLAY = r'''
# replay of a C09 / C03-converse counterexample on the real code (exit 1 = violated): the decoded instruction's rendering,
# fed to the matching miasmX parser, does not give back the original bytes although GNU as reads the same text as exactly them
import sys
from miasmx.arch.ia32_arch import x86mnemo
from vf.oracles import gas
D = %(data)r
b = bytes(D['bytes']); att = D['att']; bad = False
i = x86mnemo.dis(b + b'\x90' * 4)
txt = i.__str__('att_syntax binutils') if att else str(i)
print(b.hex(), '->', repr(txt))
if D.get('arbiter'):
    from vf.checks import c09
    from vf.oracles import objdump as OD
    ref = gas.reference([' '.join(txt.split())], att=att, want_bytes=True)[0]
    v = c09.arbiter_verdict(ref, OD.disassemble([b])[0], b)
    print('GNU as:', None if ref is None else (ref[1], bytes(ref[2]).hex()), '| verdict:', v)
    bad = v is not None and v[0] == D['arbiter']
    print(%(prop)r, 'replay:', 'VIOLATED' if bad else 'holds'); sys.exit(1 if bad else 0)
try:
    cands = x86mnemo.asm_att(txt) if att else x86mnemo.asm(txt)
    cands = [bytes(c) for c in cands]
    print('candidates:', [c.hex() for c in cands])
    miss = b not in cands
except Exception as ex:
    print('the parser raises', type(ex).__name__, ex); miss = True
if miss:
    from vf.checks import c09
    can = c09.is_canonical(b)
    print('canonical encoding (GNU as reproduces the bytes from objdump\'s text):', can)
    if can: bad = True
    else: print('outside the quantifier: not the encoding the reference assembler produces (or not decodable by the reference)')
print(%(prop)r, 'replay:', 'VIOLATED' if bad else 'holds')
sys.exit(1 if bad else 0)
'''


def make_replay(cnd):
    return REPLAY % {'data': cnd['data'], 'prop': cnd['data'].get('prop', PROP)}


def main(argv=None):
    a = common.tier_seed(argv)
    t0 = time.time()
    js = jobs(a.tier, a.seed)
    if a.only:
        js = [j for j in js if a.only in repr(j)]
    results, left = common.run_pool('vf.checks.c09', js, nproc=a.nproc, budget_s=1500 if a.tier == 'quick' else 9000)
    cov, cands, inconc, herr = c05.aggregate(results, left)
    for k in ('outside_noncanonical', 'gas_rejects_rendering', 'render_raises'):
        cov[k] = sum(r.get(k, 0) for r in results if 'harness_error' not in r)
    cov['exhaustive'] = False
    cov['rule'] = 'a program = one opcode row x prefix set x syntax; non-trivial = at least one path on which the rendering provably re-assembles to the original bytes'
    cov['functions_encoded'] = ['ia32_arch:x86_mn._dis (symbolic bytes)', 'ia32_arch:x86_mn.__str__/to_string, dict_to_ad, add_imm_to_string (render mode: symbolic numbers as placeholder numerals)',
                                'ia32_arch:x86_mn._asm / _asm_att, parse_mnemo, asm_candidates, forge_opc; core.parse_ad and ia32_att grammars; ply lex/yacc (real text, placeholders mapped back after lexing)']
    cov['bounds'] = ('rows of the live opcode trie x prefix sets %s, thin ModRM slice (every reg value; mod/rm/SIB representatives), 11 symbolic bytes; %s; '
                     'misses reported only for encodings GNU as reproduces from the rendering (canonical); GNU-as acceptance itself is NOT claimed'
                     % ('(), (66)' if a.tier == 'quick' else '(), (66), (67)', 'quick: a fixed core list + 12 rows sampled by seed in the thin slice, every other row in the thinnest slice (3 ModRM forms), prefix 66 only for the former' if a.tier == 'quick' else 'all rows'))
    if cov['proved'] == 0:
        herr.append('vacuous: nothing proved')
    assumptions = ['digit-string <-> integer conversion is not modelled (placeholders substituted after lexing)', 'GNU as 2.40 as canonicity filter at witnesses', 'z3 5.1.0', 'SInt / SBytes proxies']
    return common.finish(PROP, a.tier, a.seed, 'model_checking', t0, cov, assumptions, cands, herr, inconc, make_replay)


if __name__ == '__main__':
    sys.exit(main())
