"""C07 - symbolic machine state equals sequential execution, including overlapping memory.

Part M (memory histories): stores through the real eval_instr at base+o_i (o_i symbolic), then a load
through the real eval_expr at base+o_k; E1(load) must equal the load on the store chain, and the
pool must denote the same byte array as the store chain - for all offsets in range, all stored values,
all initial memory, base constant or symbolic.
Part P (programs) and rep: see c07p (registered under the same property; run from main()).
"""
import itertools
import random
import sys
import time

import z3

from vf import common, ir2smt
from vf.symex import core, instr
from vf.symex.core import SInt, Engine, PathAbort
from vf.checks import c05, c13

PROP = 'C07'


def worker_init():
    from vf.x86 import explore as E_
    E_.worker_init()          # installs the import hook, loads the x86 modules (programs / rep part)
    from vf.checks import c11 as c11_
    c11_.worker_init()
    c13.worker_init()
    global X, H, M, EA
    X, H, M = c05.X, c05.H, c05.M
    import miasmx.expression.expression_eval_abstract as EA


def _ci(v):
    return v.__index__() if isinstance(v, SInt) else (int(v) if isinstance(v, float) and v.is_integer() else v)


def concretize_fields(e):
    """sizes / slice bounds computed from a symbolic pointer difference are still symbolic integers inside
    one path: fork on their values so that E1 sees concrete widths (rebuilds the tree)"""
    if isinstance(e, (X.ExprInt, X.ExprId)):
        return e
    if isinstance(e, X.ExprMem):
        return X.ExprMem(concretize_fields(e.arg), _ci(e.size), e.segm)
    if isinstance(e, X.ExprOp):
        return X.ExprOp(e.op, *[concretize_fields(a) for a in e.args])
    if isinstance(e, X.ExprCond):
        return X.ExprCond(concretize_fields(e.cond), concretize_fields(e.src1), concretize_fields(e.src2))
    if isinstance(e, X.ExprSlice):
        return X.ExprSlice(concretize_fields(e.arg), _ci(e.start), _ci(e.stop))
    if isinstance(e, X.ExprCompose):
        return X.ExprCompose([(concretize_fields(a[0]), _ci(a[1]), _ci(a[2])) for a in e.args])
    return e


def reset_hidden_state():
    """the evaluator keeps a module-lifetime dictionary as default argument (eval_cache={}) of
    get_mem_overlapping: entries of earlier paths would steer later ones (and break replay)"""
    for fn_ in (EA.eval_abs.get_mem_overlapping,):
        d = fn_.__defaults__
        if d:
            for x in d:
                if isinstance(x, dict):
                    x.clear()


def mem_jobs(tier, seed):
    rnd = random.Random(seed)
    out = []
    W = [8, 16, 32]
    rng = 5 if tier == 'quick' else 16
    for base in ('sym', 'const'):
        for w1, w3 in itertools.product(W, W):
            out.append(('mem', base, (w1,), w3, 8 if tier == 'quick' else 16, None))
        triples = list(itertools.product(W, W, W))
        if tier == 'quick':
            keep = [(32, 8, 32), (8, 32, 16), (16, 32, 8)]
            rnd.shuffle(keep)
            triples = keep[:2] if base == 'sym' else []
        for w1, w2, w3 in triples:
            # the second store's offset is split into sub-ranges (still symbolic within each) to spread the work
            step = 4
            for lo in range(0, rng + 7, step):
                out.append(('mem', base, (w1, w2), w3, rng, (lo, min(lo + step - 1, rng + 6))))
        # three stores, the last one (wider) at the first store's address: cells lying inside a store whose own start address
        # already holds a narrower cell; second offset and load offset symbolic
        if base == 'sym' or tier == 'thorough':
            for ws in [(8, 8, 32), (16, 16, 32), (32, 8, 32), (8, 16, 32), (8, 32, 16), (16, 8, 32)]:
                for wl3 in ((8, 32) if tier == 'quick' else (8, 16, 32)):
                    for lo in range(0, 12, 4):
                        out.append(('mem', base, ws, wl3, 5, (lo, lo + 3), 'first'))
        if tier == 'thorough' and base == 'sym':
            for ws in [(32, 8, 32), (8, 32, 8), (16, 16, 32)]:
                for lo in range(0, 13, 2):
                    out.append(('mem', base, ws, 32, 6, (lo, min(lo + 1, 12))))
    return out


def run_mem(job, res):
    _, basek, ws, wl, rng, sub = job[:6]
    tie = job[6] if len(job) > 6 else None     # 'first': the last store goes to the first store's address (offset 8)
    # partition the first free offset to spread the work: one engine per value of o_2 (or o_load)
    name = 'stores %s then load%d, base %s, offsets in [0,%d)%s%s' % ('/'.join('st%d' % w for w in ws), wl, basek, rng + 7, '' if sub is None else ', second offset in [%d,%d]' % sub, ', last store at the first address' if tie else '')
    eng = Engine(width=72, timeout_ms=30000, max_paths=20000, max_seconds=900, path_seconds=60)

    def fn(eng):
        reset_hidden_state()
        if basek == 'sym':
            base = X.ExprId('ebx', 32)
        else:
            base = X.ExprInt(M.uint32(SInt.var('base', 0, (1 << 32) - 1)))
        machine = EA.eval_abs({})
        offs = []
        vals = []
        # first offset fixed in the middle of the window (translation invariance), the others symbolic
        for i, w in enumerate(ws):
            if i == 0 or (tie == 'first' and i == len(ws) - 1):
                o = 8
            elif i == 1 and sub is not None:
                o = SInt.var('o%d' % i, sub[0], sub[1])
            else:
                o = SInt.var('o%d' % i, 0, rng + 6)
            offs.append(o)
            v = X.ExprId('v%d' % i, w)
            vals.append(v)
            addr = X.ExprOp('+', base, X.ExprInt(M.uint32(o)))
            machine.eval_instr([X.ExprAff(X.ExprMem(addr, w), v)])
        ol = SInt.var('ol', 0, rng + 6)
        load = X.ExprMem(X.ExprOp('+', base, X.ExprInt(M.uint32(ol))), wl)
        c = ir2smt.Ctx(strict=False)
        bt = ir2smt.tr(base, c)
        # reference: store chain
        mem = c.mem
        for o, w, v in zip(offs, ws, vals):
            mem = c.store(mem, bt + z3.Extract(31, 0, core.term_of(o)), ir2smt.tr(v, c), w // 8)
        want = c.load(mem, bt + z3.Extract(31, 0, core.term_of(ol)), wl // 8)
        # (1) the pool denotes the store chain
        cells = []
        for a_expr, (mexpr, vexpr) in list(machine.pool.pool_mem.items()):
            mexpr = concretize_fields(mexpr)
            vexpr = concretize_fields(vexpr)
            try:
                at = c.fit(ir2smt.tr(mexpr.arg, c), 32, 'addr')
                vt = ir2smt.tr(vexpr, c, want=mexpr.size)
            except (ir2smt.IllTyped, ir2smt.Untranslatable) as ex:
                return ('CEX', 'pool-illformed', 'pool entry %s = %s is not well-formed: %s' % (mexpr, vexpr, ex), eng.model_inputs(eng.witness()))
            if vt.size() != mexpr.size:
                return ('CEX', 'pool-width', 'pool entry %s holds a %d-bit value' % (mexpr, vt.size()), eng.model_inputs(eng.witness()))
            cells.append((at, mexpr.size // 8, vt))
        b = z3.BitVec('probe_addr', 32)
        pool_byte = z3.Select(c.mem, b)
        for at, nb, vt in cells:
            d = b - at
            byte = z3.Extract(7, 0, z3.LShR(vt, z3.ZeroExt(vt.size() - 32, d) * 8)) if vt.size() >= 32 else \
                z3.Extract(7, 0, z3.LShR(z3.ZeroExt(32 - vt.size(), vt), d * 8))
            pool_byte = z3.If(z3.ULT(d, nb), byte, pool_byte)
        for i in range(len(cells)):
            for j in range(i + 1, len(cells)):
                ai, ni, _ = cells[i]
                aj, nj, _ = cells[j]
                st, m = eng.find(z3.Or(z3.ULT(ai - aj, nj), z3.ULT(aj - ai, ni)))
                if st == 'sat':
                    return ('CEX', 'pool-overlap', 'two pool cells overlap', eng.model_inputs(m))
                if st != 'unsat':
                    return ('UNKNOWN', 'pool-overlap')
        st, m = eng.find(pool_byte != z3.Select(mem, b))
        if st == 'sat':
            return ('CEX', 'pool', 'pool memory differs from the sequential store chain at some byte', eng.model_inputs(m))
        if st != 'unsat':
            return ('UNKNOWN', 'pool')
        # (2) the load
        try:
            r = machine.eval_expr(load, {})
        except PathAbort:
            raise
        except Exception as ex:
            return ('CEX', 'exc:' + type(ex).__name__, 'load raises %s: %s' % (type(ex).__name__, str(ex)[:80]), eng.model_inputs(eng.witness()))
        # the result is interpreted over the initial symbols: memory terms in it read the *initial* memory
        r = concretize_fields(r)
        try:
            got = ir2smt.tr(r, c, want=wl)
        except (ir2smt.IllTyped, ir2smt.Untranslatable) as ex:
            return ('CEX', 'illformed', 'load result %s is not well-formed: %s' % (r, ex), eng.model_inputs(eng.witness()))
        if got.size() != wl:
            return ('CEX', 'width', 'load result has %d bits' % got.size(), eng.model_inputs(eng.witness()))
        st, m = eng.find(got != want)
        if st == 'sat':
            return ('CEX', 'load', 'load result %s differs from the byte-addressed interpreter' % r, eng.model_inputs(m))
        if st != 'unsat':
            return ('UNKNOWN', 'load')
        return ('OK',)
    rs = eng.explore(fn)
    res['paths'] += eng.stats['paths']
    res['queries'] += eng.stats['queries']
    res['solver_s'] += eng.stats['solver_s']
    for u in eng.unexplored:
        res['inconclusive'].append('%s: %s' % (name, u))
    ok = 0
    seen = set()
    for r in rs:
        if r[0] == 'OK':
            ok += 1
            res['obligations'] += 1
            res['proved'] += 1
        elif r[0] == 'CEX':
            res['obligations'] += 1
            # overlap case: relative position of the load to the stores (deterministic from the model)
            v = r[3]
            rel = _rel(ws, wl, v)
            key = '%s:st%s:ld%d:%s:%s' % (r[1], '/'.join(map(str, ws)), wl, basek, rel)
            if key in seen:
                continue
            seen.add(key)
            res['candidates'].append({'key': key, 'desc': '%s: %s with %s' % (name, r[2], v),
                                      'data': {'kind': 'mem', 'base': basek, 'ws': ws, 'wl': wl, 'tie': tie, 'vals': {str(k): x for k, x in v.items()}, 'what': r[1]}})
        elif r[0] == 'TIMEOUT':
            res['inconclusive'].append('%s: path timeout' % name)
        else:
            res['inconclusive'].append('%s: %s' % (name, r[1] if len(r) > 1 else r[0]))
    if ok:
        res['nontrivial'] += 1
        res['samples'].append({'history': name, 'paths': len(rs), 'verdict': 'unsat on %d path(s): load and pool agree with the store chain for all offsets of the path' % ok})


def _rel(ws, wl, v):
    """classify a counterexample by how the load lies relative to each store (inside / before / after / straddles)"""
    offs = [8] + [v.get('o%d' % i, 0) for i in range(1, len(ws))]
    ol = v.get('ol', 0)
    out = []
    for o, w in zip(offs, ws):
        a0, a1 = o, o + w // 8
        l0, l1 = ol, ol + wl // 8
        if l1 <= a0 or l0 >= a1:
            out.append('d')          # disjoint
        elif l0 == a0 and l1 == a1:
            out.append('e')          # exact
        elif l0 >= a0 and l1 <= a1:
            out.append('i')          # load inside the store
        elif l0 <= a0 and l1 >= a1:
            out.append('c')          # load covers the store
        elif l0 < a0:
            out.append('l')          # load starts before, ends inside
        else:
            out.append('r')          # load starts inside, ends after
    # relative position of the stores among themselves
    if len(offs) >= 2:
        a0, a1 = offs[0], offs[0] + ws[0] // 8
        b0, b1 = offs[1], offs[1] + ws[1] // 8
        out.append('ss' + ('d' if (b1 <= a0 or b0 >= a1) else 'o'))
    return ''.join(out)


def jobs(tier, seed):
    return mem_jobs(tier, seed)


def run_job(job):
    res = {'paths': 0, 'queries': 0, 'solver_s': 0.0, 'obligations': 0, 'proved': 0, 'candidates': [],
           'inconclusive': [], 'samples': [], 'programs': 1, 'nontrivial': 0}
    if job[0] == 'mem':
        run_mem(job, res)
    else:
        from vf.checks import c07p
        c07p.run(job, res)
    return res


REPLAY = r'''
# replay of a C07 memory-history counterexample on the real eval_abs (exit 1 = property violated)
import sys
import z3
import miasmx.expression.expression as X
import miasmx.tools.modint as M
import miasmx.expression.expression_eval_abstract as EA
from vf import ir2smt
D = %(data)r
V = D['vals']; ws = D['ws']; wl = D['wl']
base = X.ExprId('ebx', 32) if D['base'] == 'sym' else X.ExprInt(M.uint32(V.get('base', 0)))
machine = EA.eval_abs({})
offs = [8] + [V.get('o%%d' %% i, 0) for i in range(1, len(ws))]
if D.get('tie') == 'first': offs[-1] = 8
c = ir2smt.Ctx(strict=False); bt = ir2smt.tr(base, c); mem = c.mem
for i, (o, w) in enumerate(zip(offs, ws)):
    v = X.ExprId('v%%d' %% i, w)
    print('store%%d @ base+%%d' %% (w, o))
    machine.eval_instr([X.ExprAff(X.ExprMem(X.ExprOp('+', base, X.ExprInt(M.uint32(o))), w), v)])
    mem = c.store(mem, bt + o, ir2smt.tr(v, c), w // 8)
ol = V.get('ol', 0)
want = c.load(mem, bt + ol, wl // 8)
print('pool:', {str(k): str(v) for k, v in machine.pool.pool_mem.values()})
bad = False
s = z3.Solver()
try:
    cells = []
    for a_expr, (mexpr, vexpr) in machine.pool.pool_mem.items():
        at = c.fit(ir2smt.tr(mexpr.arg, c), 32, 'addr'); vt = ir2smt.tr(vexpr, c, want=mexpr.size)
        if vt.size() != mexpr.size: bad = True
        cells.append((at, mexpr.size // 8, vt))
    b = z3.BitVec('probe_addr', 32); pb = z3.Select(c.mem, b)
    for at, nb, vt in cells:
        d = b - at
        vv = vt if vt.size() >= 32 else z3.ZeroExt(32 - vt.size(), vt)
        byte = z3.Extract(7, 0, z3.LShR(vv, (z3.ZeroExt(vv.size() - 32, d) if vv.size() > 32 else d) * 8))
        pb = z3.If(z3.ULT(d, nb), byte, pb)
    for i in range(len(cells)):
        for j in range(i + 1, len(cells)):
            s.push(); s.add(z3.Or(z3.ULT(cells[i][0] - cells[j][0], cells[j][1]), z3.ULT(cells[j][0] - cells[i][0], cells[i][1])))
            if s.check() == z3.sat: bad = True; print('two pool cells overlap')
            s.pop()
    s.push(); s.add(pb != z3.Select(mem, b))
    if s.check() == z3.sat: bad = True; print('pool differs from the store chain at byte', s.model()[b])
    s.pop()
except (ir2smt.IllTyped, ir2smt.Untranslatable) as ex:
    bad = True; print('pool entry not well-formed:', ex)
try:
    r = machine.eval_expr(X.ExprMem(X.ExprOp('+', base, X.ExprInt(M.uint32(ol))), wl), {})
    print('load%%d @ base+%%d ->' %% (wl, ol), r)
    try:
        got = ir2smt.tr(r, c, want=wl)
        if got.size() != wl: bad = True; print('width', got.size())
        else:
            s.add(got != want)
            if s.check() == z3.sat: bad = True; print('differs from the byte-addressed interpreter, e.g. expected', s.model().eval(want), 'got', s.model().eval(got))
    except (ir2smt.IllTyped, ir2smt.Untranslatable) as ex:
        bad = True; print('load result not well-formed:', ex)
except Exception as ex:
    bad = True; print('load raises', type(ex).__name__, ex)
print('C07 replay:', 'VIOLATED' if bad else 'holds')
sys.exit(1 if bad else 0)
'''


def make_replay(cnd):
    if cnd['data'].get('kind') == 'mem':
        return REPLAY % {'data': cnd['data']}
    from vf.checks import c07p
    return c07p.make_replay(cnd)


def main(argv=None):
    a = common.tier_seed(argv)
    t0 = time.time()
    js = jobs(a.tier, a.seed)
    try:
        from vf.checks import c07p
        js = js + c07p.jobs(a.tier, a.seed)
    except ImportError:
        pass
    if a.only:
        js = [j for j in js if a.only in repr(j)]
    results, left = common.run_pool('vf.checks.c07', js, nproc=a.nproc, budget_s=1500 if a.tier == 'quick' else 5400)
    cov, cands, inconc, herr = c05.aggregate(results, left)
    slow = sorted(((r.get('wall_s', 0), r.get('job')) for r in results), reverse=True)[:5]
    cov['slowest_jobs'] = [{'wall_s': round(w, 1), 'job': str(j)[:120]} for w, j in slow]
    cov['exhaustive'] = False
    cov['rule'] = 'a program = one store/load history (width tuple, base kind) with symbolic offsets, or one instruction sequence; non-trivial = at least one path proved'
    cov['functions_encoded'] = ['expression_eval_abstract:eval_abs.eval_instr/get_instr_mod/get_mem_overlapping/substract_mems/is_mem_in_target/eval_ExprMem/rest_slice, mpool',
                                'expression_helper:expr_simp', 'tools.emul_helper:emul_lines/emul_expr/emul_full_expr (programs)']
    cov['bounds'] = ('histories: 1 or 2 stores (3 in thorough for three width mixes; in both tiers 3 stores for six width mixes with the last, wider store at the address of the first store) + 1 load, widths 8/16/32, first store at base+8, other offsets symbolic in [0,%d), '
                     'base constant (symbolic value) or symbolic register' % (19 if a.tier == 'quick' else 23))
    if cov['proved'] == 0:
        herr.append('vacuous: nothing proved')
    assumptions = ['byte-addressed little-endian memory as an SMT array', 'E1 meaning of the IR', 'z3 5.1.0', 'SInt proxy']
    return common.finish(PROP, a.tier, a.seed, 'translation_validation', t0, cov, assumptions, cands, herr, inconc, make_replay)


if __name__ == '__main__':
    sys.exit(main())
