"""C12 - API results depend only on explicit inputs (partial claim, DESIGN 5/C12).

No histories are enumerated.  One-step obligations:
 (a) frame condition: on every path of a call (including paths that raise) the objects passed in for
     reading are structurally unchanged, and so are the shared tables / other machines;
 (b) memo independence: the per-node memo flags `is_eval` / `simp` are replaced by SYMBOLIC booleans,
     constrained only by what an honest earlier call could have left behind; the result of the probe
     call under any admissible flags must be structurally equal to its result with all flags clear;
 (c) module-lifetime caches (mutable default arguments) must be empty of entries that change a result:
     the probe is run with the cache pre-populated by an arbitrary earlier call on another machine.
The on-disk PLY table clause and general histories are not addressed.
"""
import random
import sys
import time

import z3

from vf import common, ir2smt
from vf.gen import shapes as G
from vf.symex import core, instr
from vf.symex.core import SInt, SBool, Engine, PathAbort
from vf.checks import c05, c13, c06

PROP = 'C12'
CHUNK = 25


class Mode:
    symbolic = False
    counter = 0
    flagged = []        # (kind, node, z3 bool)


class MemoFlag(object):
    """data descriptor installed on Expr for 'is_eval' and 'simp' (harness side, no repo change)"""

    def __init__(self, name):
        self.name = name
        self.key = '_memo_' + name

    def __get__(self, obj, cls):
        if obj is None:
            return False
        d = obj.__dict__
        if self.key in d:
            return d[self.key]
        if not Mode.symbolic:
            return False
        v = self.admissible(obj)
        d[self.key] = v
        return v

    def __set__(self, obj, v):
        obj.__dict__[self.key] = v

    def admissible(self, obj):
        if self.name == 'is_eval':
            # an honest history (evaluating the same expression objects in other machine states) marks the
            # leaves: an identifier that was unbound there, a constant
            # (a mark on a constant cannot matter: eval_ExprInt returns the node itself anyway)
            if not isinstance(obj, X.ExprId):
                return False
        else:
            # 'simp' is only ever set on a node on which _expr_simp is the identity
            # (on leaves _expr_simp is the identity by construction: a mark there cannot matter)
            if isinstance(obj, (X.ExprId, X.ExprInt)):
                return False
            Mode.symbolic = False
            try:
                fix = bool(H._expr_simp(obj) == obj)
            finally:
                Mode.symbolic = True
            if not fix:
                return False
        Mode.counter += 1
        b = z3.Bool('memo_%s_%d' % (self.name, Mode.counter))
        Mode.flagged.append((self.name, obj, b))
        Ctx_inputs()[str(b)] = b
        return SBool(b)


def Ctx_inputs():
    return core.Ctx.cur.bool_inputs


def worker_init():
    c06.worker_init()
    global X, H, M, EA
    X, H, M, EA = c05.X, c05.H, c05.M, c06.EA
    X.Expr.is_eval = MemoFlag('is_eval')
    X.Expr.simp = MemoFlag('simp')
    from vf.checks import c12d
    c12d.worker_init()


# -------------------------------------------------------------------------------------------------
def snapshot(e):
    """deep structural snapshot (identity of every node + every field)"""
    if isinstance(e, X.ExprInt):
        return ('I', id(e), type(e.arg).__name__, e.arg.arg)
    if isinstance(e, X.ExprId):
        return ('D', id(e), e.name, e.size, e.is_term, e.is_reg)
    # is_term is read by eval_expr ("already a terminal: return as is"): it is part of what the node means to a later call
    t = bool(e.__dict__.get('is_term', False))
    if isinstance(e, X.ExprMem):
        return ('M', id(e), e.size, snapshot(e.arg), snapshot(e.segm) if isinstance(e.segm, X.Expr) else e.segm, t)
    if isinstance(e, X.ExprOp):
        return ('O', id(e), e.op, tuple(snapshot(a) for a in e.args), t)
    if isinstance(e, X.ExprCond):
        return ('C', id(e), snapshot(e.cond), snapshot(e.src1), snapshot(e.src2), t)
    if isinstance(e, X.ExprSlice):
        return ('S', id(e), e.start, e.stop, snapshot(e.arg), t)
    if isinstance(e, X.ExprCompose):
        return ('P', id(e), tuple((snapshot(a[0]), a[1], a[2]) for a in e.args), t)
    if isinstance(e, X.ExprAff):
        return ('A', id(e), snapshot(e.dst), snapshot(e.src))
    return ('?', id(e))


def snap_equal(a, b):
    if type(a) is not type(b):
        return False
    if isinstance(a, tuple):
        return len(a) == len(b) and all(snap_equal(x, y) for x, y in zip(a, b))
    if isinstance(a, SInt) or isinstance(b, SInt):
        return isinstance(a, SInt) and isinstance(b, SInt) and a.t.eq(b.t)
    return a == b


def snap_pool(machine):
    return (tuple((id(k), snapshot(k), snapshot(v)) for k, v in machine.pool.pool_id.items()),
            tuple((id(k), snapshot(m), snapshot(v)) for k, (m, v) in machine.pool.pool_mem.items()))


def cases(tier, seed):
    rnd = random.Random(seed)
    out = []
    for n in ([32] if tier == 'quick' else [32, 8, 16]):
        sh = G.rule_templates(n) + G.depth1(n, rich=True)
        sh = [G.renumber(s) for s in sh]
        sh = [s for s in dict.fromkeys(sh) if all(sz in G.WIDTHS for _, sz in G.ints_of(s)) and c06._std_widths(s)]
        rnd.shuffle(sh)
        sh = sh[:220 if tier == 'quick' else 700]
        for i, s in enumerate(sh):
            out.append(('simp', s, None))
            ids = c06.ids_of(s)
            kinds = tuple('c-ei'[(i + j) % 4] for j in range(len(ids)))
            out.append(('eval', s, kinds))
            if i % 3 == 0 and ids:
                out.append(('instr', s, kinds))
    return out


def _nodes_small(shape):
    return len(c06.ids_of(shape)) + len(G.ints_of(shape)) <= 4


def check_case(case, res, tier):
    kind, shape, kinds = case
    name = '%s %s%s' % (kind, G.show(shape), '' if kinds is None else ' ids:' + ''.join(kinds))
    eng = Engine(width=c05.shape_width(shape), timeout_ms=20000, max_paths=600, max_seconds=90, path_seconds=20)
    eng.bool_inputs = {}

    def fn(eng):
        eng.bool_inputs = {}
        Mode.symbolic = False
        Mode.flagged = []
        Mode.counter = 0
        c06_reset()
        consts = c05.sym_consts(shape)
        try:
            if kind == 'simp':
                return run_simp(eng, shape, consts)
            if kind == 'eval':
                return run_eval(eng, shape, kinds, consts)
            return run_instr(eng, shape, kinds, consts)
        finally:
            Mode.symbolic = False
    try:
        rs = eng.explore(fn)
    except core.NonDeterminism as ex:
        # the replay-based exploration met another decision sequence on a re-run of the same prefix (state the harness does not
        # reset between paths): nothing is concluded for this case
        res['inconclusive'].append('%s: exploration not deterministic (%s)' % (name, ex))
        return
    res['paths'] += eng.stats['paths']
    res['queries'] += eng.stats['queries']
    res['solver_s'] += eng.stats['solver_s']
    for u in eng.unexplored:
        res['inconclusive'].append('%s: %s' % (name, u))
    ok = 0
    seen = set()
    for r in rs:
        if r[0] == 'OK':
            ok += 1
            res['obligations'] += 1
            res['proved'] += 1
        elif r[0] == 'CEX':
            res['obligations'] += 1
            key = r[1]
            if key in seen:
                continue
            seen.add(key)
            res['candidates'].append({'key': key, 'desc': '%s: %s' % (name, r[2]),
                                      'data': {'kind': kind, 'shape': shape, 'kinds': kinds, 'what': r[1], 'vals': {str(k): v for k, v in r[3].items()}, 'flags': r[4]}})
        elif r[0] == 'SKIP':
            pass
        elif r[0] == 'TIMEOUT':
            res['inconclusive'].append('%s: path timeout' % name)
        else:
            res['inconclusive'].append('%s: %s' % (name, r[1] if len(r) > 1 else r[0]))
    if ok:
        res['nontrivial'] += 1
        if len(res['samples']) < 2:
            res['samples'].append({'case': name, 'paths': len(rs), 'verdict': 'frame condition and memo independence hold on %d path(s)' % ok})


def c06_reset():
    for fn_ in (EA.eval_abs.get_mem_overlapping,):
        for x in (fn_.__defaults__ or ()):
            if isinstance(x, dict):
                x.clear()


def _flags_model(eng, m):
    out = []
    for nm, node, b in Mode.flagged:
        if z3.is_true(m.eval(b, model_completion=True)):
            out.append((nm, type(node).__name__, getattr(node, 'name', None)))
    return out


def _compare(eng, r0, r1, what):
    eq = c13.struct_eq(r1, r0)
    if eq is True:
        return None
    if eq is False:
        m = eng.witness()
        return ('CEX', what, 'result %s with earlier memo marks, %s without' % (r1, r0), eng.model_inputs(m), _flags_model(eng, m))
    st, m = eng.find(z3.Not(eq))
    if st == 'sat':
        return ('CEX', what, 'result %s with earlier memo marks, %s without' % (r1, r0), eng.model_inputs(m), _flags_model(eng, m))
    if st != 'unsat':
        return ('UNKNOWN', what)
    return None


def run_simp(eng, shape, consts):
    e0 = G.build(shape, consts, X, M)
    before = snapshot(e0)
    try:
        r0 = H.expr_simp(e0)
    except PathAbort:
        raise
    except Exception:
        r0 = None
    if not snap_equal(before, snapshot(e0)):
        return ('CEX', 'frame:expr_simp:input-mutated', 'expr_simp modified its argument in place', eng.model_inputs(eng.witness()), [])
    if r0 is None:
        return ('SKIP',)
    # memo independence (simp flags symbolic on every node of a fresh copy)
    e1 = G.build(shape, consts, X, M)
    Mode.symbolic = True
    try:
        r1 = H.expr_simp(e1)
    finally:
        Mode.symbolic = False
    bad = _compare(eng, r0, r1, 'memo:simp')
    return bad or ('OK',)


def _machine(shape, kinds, consts, tag=''):
    binds = {}
    UC = {1: M.uint1, 8: M.uint8, 16: M.uint16, 32: M.uint32, 64: M.uint64}
    ids = {}
    for (nm, sz), kd in zip(c06.ids_of(shape), kinds):
        key = X.ExprId(nm, sz)
        ids[(nm, sz)] = key
        if kd == 'c':
            binds[key] = X.ExprInt(UC[sz](SInt.var('b_%s' % nm, 0, (1 << sz) - 1)))
        elif kd == 'e':
            binds[key] = X.ExprOp('+', X.ExprId('u_' + nm, sz), X.ExprInt(UC[sz](SInt.var('bk_%s' % nm, 0, (1 << sz) - 1))))
        elif kd == 'i':
            binds[key] = X.ExprId('v_' + nm, sz)
    return EA.eval_abs(binds)


def run_eval(eng, shape, kinds, consts):
    m0 = _machine(shape, kinds, consts)
    e0 = G.build(shape, consts, X, M)
    before_e, before_p = snapshot(e0), snap_pool(m0)
    other = EA.eval_abs({X.ExprId('zz', 32): X.ExprInt(M.uint32(1))})
    before_o = snap_pool(other)
    try:
        r0 = m0.eval_expr(e0, {})
    except PathAbort:
        raise
    except Exception:
        r0 = None
    if not snap_equal(before_e, snapshot(e0)):
        return ('CEX', 'frame:eval_expr:input-mutated', 'eval_expr modified the expression passed in', eng.model_inputs(eng.witness()), [])
    if not snap_equal(before_p, snap_pool(m0)):
        return ('CEX', 'frame:eval_expr:state-mutated', 'eval_expr modified the machine state', eng.model_inputs(eng.witness()), [])
    if not snap_equal(before_o, snap_pool(other)):
        return ('CEX', 'frame:eval_expr:other-machine', 'eval_expr modified another machine', eng.model_inputs(eng.witness()), [])
    if r0 is None:
        return ('SKIP',)
    m1 = _machine(shape, kinds, consts)
    e1 = G.build(shape, consts, X, M)
    Mode.symbolic = True
    try:
        try:
            r1 = m1.eval_expr(e1, {})
        except PathAbort:
            raise
        except Exception as ex:
            m = eng.witness()
            return ('CEX', 'memo:is_eval:exception', 'raises %s only after earlier calls' % type(ex).__name__, eng.model_inputs(m), _flags_model(eng, m))
    finally:
        Mode.symbolic = False
    bad = _compare(eng, r0, r1, 'memo:is_eval')
    if bad and bad[0] == 'CEX':
        # classify by the cause: does the difference persist when only identifiers that the probe machine
        # binds carry a mark?  (that is the one recorded finding; anything else is a different defect)
        boundnames = set(nm for (nm, sz), kd in zip(c06.ids_of(shape), kinds) if kd != '-')
        # (every path fixes its own flag values, so the path on which no bound identifier is marked
        # shows any *other* cause by itself)
        cause = 'bound-identifier' if any(k == 'ExprId' and nm in boundnames for _, k, nm in bad[4]) else 'other'
        marks = sorted(set(nm for _, k, nm in bad[4] if nm))
        bad = ('CEX', 'memo:is_eval:' + cause, bad[2] + ' (marks on %s)' % marks, bad[3], bad[4])
    return bad or ('OK',)


def run_instr(eng, shape, kinds, consts):
    m0 = _machine(shape, kinds, consts)
    src = G.build(shape, consts, X, M)
    n = G.width(shape)
    dst = X.ExprId('dst', n)
    aff = X.ExprAff(dst, src)
    before = snapshot(aff)
    other = _machine(shape, kinds, consts)
    before_o = snap_pool(other)
    try:
        m0.eval_instr([aff])
    except PathAbort:
        raise
    except Exception:
        pass
    if not snap_equal(before, snapshot(aff)):
        return ('CEX', 'frame:eval_instr:input-mutated', 'eval_instr modified the assignment passed in', eng.model_inputs(eng.witness()), [])
    if not snap_equal(before_o, snap_pool(other)):
        return ('CEX', 'frame:eval_instr:other-machine', 'eval_instr modified another machine', eng.model_inputs(eng.witness()), [])
    return ('OK',)


def jobs(tier, seed):
    cs = cases(tier, seed)
    from vf.checks import c12d
    return [('chunk', tier, cs[i:i + CHUNK]) for i in range(0, len(cs), CHUNK)] + c12d.jobs(tier, seed)


def run_job(job):
    res = {'paths': 0, 'queries': 0, 'solver_s': 0.0, 'obligations': 0, 'proved': 0, 'candidates': [],
           'inconclusive': [], 'samples': [], 'programs': 0, 'nontrivial': 0}
    if job[0] in ('dis12', 'asm12', 'hist12'):
        from vf.checks import c12d
        Mode.symbolic = False
        res['programs'] = 1
        c12d.run(job, res)
        return res
    _, tier, items = job
    for it in items:
        res['programs'] += 1
        check_case(it, res, tier)
    return res


REPLAY = r'''
# replay of a C12 counterexample as a concrete two-call history on the real code (exit 1 = property violated)
import sys
import miasmx.expression.expression as X
import miasmx.tools.modint as M
import miasmx.expression.expression_helper as H
import miasmx.expression.expression_eval_abstract as EA
from vf.gen import shapes as G
from vf.checks import c06, c05
c06.X = c05.X = X; c06.M = c05.M = M
D = %(data)r
V = D['vals']; shape = D['shape']; kinds = D['kinds']
UC = {1: M.uint1, 8: M.uint8, 16: M.uint16, 32: M.uint32, 64: M.uint64}
consts = {k: V.get('k%%d' %% k, 0) for k, _ in G.ints_of(shape)}
def machine():
    b = {}
    for (nm, sz), kd in zip(c06.ids_of(shape), kinds or ()):
        key = X.ExprId(nm, sz)
        if kd == 'c': b[key] = X.ExprInt(UC[sz](V.get('b_' + nm, 0)))
        elif kd == 'e': b[key] = X.ExprOp('+', X.ExprId('u_' + nm, sz), X.ExprInt(UC[sz](V.get('bk_' + nm, 0))))
        elif kd == 'i': b[key] = X.ExprId('v_' + nm, sz)
    return EA.eval_abs(b)
bad = False
if D['kind'] == 'eval' and D['what'].startswith('memo'):
    fresh = machine().eval_expr(G.build(shape, consts, X, M), {})
    # history: the SAME expression object is first evaluated on another machine whose state binds nothing
    e = G.build(shape, consts, X, M)
    try: EA.eval_abs({}).eval_expr(e, {})
    except Exception as ex: print('history call raised', type(ex).__name__)
    try:
        again = machine().eval_expr(e, {})
        print('probe on fresh objects :', fresh); print('probe after the history:', again)
        bad = not (again == fresh) or str(again) != str(fresh)
    except Exception as ex:
        print('probe after the history raises', type(ex).__name__, ex); bad = True
elif D['kind'] == 'simp' and D['what'].startswith('memo'):
    fresh = H.expr_simp(G.build(shape, consts, X, M))
    e = G.build(shape, consts, X, M)
    def walk(x):
        yield x
        for a in getattr(x, 'args', ()):
            yield from walk(a[0] if isinstance(a, tuple) else a)
        for nm in ('arg', 'cond', 'src1', 'src2'):
            a = getattr(x, nm, None)
            if isinstance(a, X.Expr): yield from walk(a)
    for sub in list(walk(e)):
        if isinstance(sub, X.Expr): H.expr_simp(sub)          # history: sub-expressions simplified earlier
    again = H.expr_simp(e)
    print('fresh:', fresh, ' after history:', again); bad = not (again == fresh) or str(again) != str(fresh)
else:
    from vf.checks import c12
    print('frame-condition counterexample:', D['what'])
    c12.X = X
    e = G.build(shape, consts, X, M); s0 = str(e); f0 = c12.snapshot(e)
    try:
        if D['kind'] == 'simp': H.expr_simp(e)
        elif D['kind'] == 'eval': machine().eval_expr(e, {})
        else: machine().eval_instr([X.ExprAff(X.ExprId('dst', G.width(shape)), e)])
    except Exception as ex: print('call raised', type(ex).__name__)
    f1 = c12.snapshot(e)
    bad = str(e) != s0 or f1 != f0; print(s0, '->', str(e), '' if f1 == f0 else '(node fields changed, e.g. is_term)')
print('C12 replay:', 'VIOLATED' if bad else 'holds')
sys.exit(1 if bad else 0)
'''


def make_replay(cnd):
    if cnd['data'].get('kind') in ('dis', 'asm'):
        from vf.checks import c12d
        return c12d.make_replay(cnd)
    return REPLAY % {'data': cnd['data']}


def main(argv=None):
    a = common.tier_seed(argv)
    t0 = time.time()
    js = jobs(a.tier, a.seed)
    if a.only:
        js = [(j[0], j[1], [it for it in j[2] if a.only in (it[0] + ' ' + G.show(it[1]))]) if j[0] == 'chunk' else j for j in js]
        js = [j for j in js if (j[2] if j[0] == 'chunk' else a.only in repr(j))]
    results, left = common.run_pool('vf.checks.c12', js, nproc=a.nproc, budget_s=1500 if a.tier == 'quick' else 5400)
    cov, cands, inconc, herr = c05.aggregate(results, left)
    cov['exhaustive'] = False
    cov['rule'] = 'a program = one API call (expr_simp / eval_expr / eval_instr) on one shape and state kind; non-trivial = at least one path proved'
    cov['functions_encoded'] = ['expression_helper:expr_simp/_expr_simp_w (simp memo)', 'expression_eval_abstract:eval_expr (is_eval memo, eval_cache), eval_instr/get_instr_mod',
                                'harness-side descriptor replacing Expr.is_eval / Expr.simp by symbolic booleans',
                                'ia32_arch:x86_mn._dis / x86allmncs.get_afs (decode twice around an interleaving, symbolic bytes)', 'emul_helper:get_instr_expr + ia32_sem (lift twice)',
                                'ia32_arch:x86_mn._asm (assemble twice, symbolic numbers)', 'deep fingerprint of x86mndb / x86_afs / ia32_reg / ia32_sem tables before and after every row']
    cov['bounds'] = ('one-step obligations, no histories: memo flags symbolic per node (is_eval on identifier/constant leaves = what evaluating the same objects on other machines leaves behind; '
                     'simp on nodes that are fixpoints of _expr_simp); frame condition on every path incl. raising ones; shapes: templates + depth-1, width 32 (quick) / 8,16,32. '
                     'dis/lift/asm part: one fixed interleaving (6 decodes incl. a truncated one, 5 assemblies incl. 2 raising) between two calls on the same symbolic input, per decoder path; '
                     'NOT addressed: on-disk PLY tables, heap aliasing, general histories of length <= 50')
    if cov['proved'] == 0:
        herr.append('vacuous: nothing proved')
    assumptions = ['admissible memo states as stated in bounds', 'structural equality of results decided as an SMT formula over the symbolic constants', 'z3 5.1.0', 'SInt proxy']
    return common.finish(PROP, a.tier, a.seed, 'model_checking', t0, cov, assumptions, cands, herr, inconc, make_replay)


if __name__ == '__main__':
    sys.exit(main())
