"""C12, decoder / lifter / assembler part: results depend only on the explicit inputs, inputs are not modified,
the shared instruction and register tables are unchanged.

No histories are enumerated.  Per path of the symbolic decoder exploration (symbolic bytes, so every immediate /
displacement / ModRM form of the row at once):

  i1 = dis(data); a1 = lift(i1)
  -- interleaving: a decode of an unrelated instruction with other prefixes, a truncated decode (absent), an
     assembly, an assembly that raises, a lift of another instruction --
  i2 = dis(data); a2 = lift(i2)

  (1) i2 is field-for-field equal to i1 (prefixes, mnemonic object, length, modes, every operand dictionary) and
      a2 is structurally equal to a1 - for ALL byte values of the path (equality of symbolic fields is an SMT
      validity query under the path condition);
  (2) frame: the input byte container is unchanged, the decoded instruction is unchanged by lifting (the
      documented output attribute arg_expr aside);
  (3) shared tables: a deep structural fingerprint of the opcode trie, the mnemonic objects, the ModRM/SIB tables,
      the register tables and the lifter's dispatch table and register objects is taken before and after all the
      paths of a row; any difference is a violation (the replay finds the first offending byte string from a fresh
      process).  The memo attributes simp / is_eval on expression nodes are excluded here: they are the subject of
      the memo part of C12 (vf/checks/c12.py).
Assembler: asm(line) with symbolic numbers twice around the same interleaving: equal candidate lists (SMT).
"""
import hashlib

import z3

from vf.symex import core, instr
from vf.symex.core import SInt, SBool, Engine, PathAbort
from vf.symex.instr import SBytes
from vf.x86 import explore as E
from vf.x86 import asmdrive as AD

IGNORED_ATTRS = ('simp', 'is_eval', '_memo_simp', '_memo_is_eval')
INTERLEAVE_BYTES = [bytes.fromhex('64d320'), bytes.fromhex('2eec'), bytes.fromhex('66670fb7840012345678'), bytes.fromhex('f30fb8c1'), bytes.fromhex('81'), bytes.fromhex('8b'), bytes.fromhex('0f0b9090'),
                    bytes.fromhex('c744240812345678')]
INTERLEAVE_LINES = ['mov eax, DWORD PTR [ebx+esi*4+16]', 'add bl, 3', 'nosuchmnemonic eax', 'mov eax, [', 'push 0x1234']
ASM_LINES = ['shl eax, cl', 'in al, dx', 'shld eax, ebx, cl', 'mov eax, {N}', 'add DWORD PTR [ebx+{N}], {N}', 'mov al, BYTE PTR [esi+edi*2+{N}]', 'push {N}', 'imul eax, ebx, {N}', 'mov WORD PTR [{N}], cx',
             'lea ecx, [eax+eax*4+{N}]', 'test BYTE PTR [ebp-{N}], {N}', 'shl eax, {N}', 'jmp {N}', 'enter {N}, {N}', 'movq mm1, QWORD PTR [eax+{N}]',
             'fld DWORD PTR [esp+{N}]', 'in al, {N}', 'ret {N}']

# history pairs: a first line that uses an operand text never seen before in the process, then another instruction with the same
# operand text; the result must be the one the second line gives on an operand text of its own (same symbolic number, other numeral)
HIST_FIRST = ['push {O}', 'pop {O}', 'lea eax, {O}', 'prefetchnta {O}', 'prefetcht0 {O}', 'prefetchw {O}', 'cmpxchg8b {O}', 'pinsrw xmm1, {O}, 3', 'shufps xmm1, {O}, 3',
              'pextrw {O}, xmm1, 3', 'mov eax, {O}', 'mov {O}, cl', 'movzx eax, {O}', 'movsx eax, {O}', 'inc {O}', 'not {O}', 'mul {O}', 'fld {O}', 'fild {O}', 'fstp {O}', 'call {O}',
              'jmp {O}', 'bt {O}, 3', 'shl {O}, 1', 'shl {O}, cl', 'imul eax, {O}, 3', 'movq mm0, {O}', 'movd mm1, {O}', 'movaps xmm0, {O}', 'movsd xmm0, {O}', 'cvtsi2sd xmm0, {O}',
              'cmpxchg {O}, ecx', 'xchg {O}, ecx', 'xadd {O}, cx', 'test {O}, 1', 'lgdt {O}', 'sldt {O}', 'bound eax, {O}', 'lds eax, {O}', 'invlpg {O}', 'clflush {O}', 'fxsave {O}',
              'ldmxcsr {O}', 'mov es, {O}', 'setz {O}', 'cmova eax, {O}', 'fnstcw {O}', 'fnstsw {O}', 'nop {O}']
HIST_OPS = {'BYTE PTR [ebx+{N}]': ['inc {O}', 'mov al, {O}', 'mov {O}, 1'],
            'WORD PTR [ebx+{N}]': ['inc {O}', 'mov ax, {O}', 'add {O}, 1', 'push {O}'],
            'WORD PTR [{N}]': ['mov ax, {O}', 'cmp {O}, dx'],
            'DWORD PTR [ebx+{N}]': ['inc {O}', 'mov eax, {O}', 'push {O}', 'call {O}'],
            'QWORD PTR [ebx+{N}]': ['fld {O}', 'movq mm0, {O}'],
            '[ebx+esi*2+{N}]': ['mov eax, {O}', 'call {O}', 'lea eax, {O}']}

SEM = EH = X = M = None


def worker_init():
    E.worker_init()
    AD.worker_init()
    global SEM, EH, X, M
    import miasmx.arch.ia32_sem as SEM
    import miasmx.tools.emul_helper as EH
    import miasmx.expression.expression as X
    import miasmx.tools.modint as M


# -------------------------------------------------------------------------------------------------
# deep structural fingerprint of shared tables
# -------------------------------------------------------------------------------------------------
def _fp(obj, h, seen, depth=0):
    t = type(obj)
    if obj is None or t in (bool, int, float, str, bytes):
        h.update(repr(obj).encode())
        return
    oid = id(obj)
    if oid in seen:
        h.update(b'<ref %d>' % seen[oid])
        return
    if depth > 60:
        h.update(b'<deep>')
        return
    if t in (list, tuple):
        seen[oid] = len(seen)
        h.update(b'[' if t is list else b'(')
        for x in obj:
            _fp(x, h, seen, depth + 1)
            h.update(b',')
        h.update(b']')
        return
    if t is dict:
        seen[oid] = len(seen)
        h.update(b'{')
        try:
            items = sorted(obj.items(), key=lambda kv: repr(kv[0]))
        except Exception:
            items = list(obj.items())
        for k, v in items:
            _fp(k, h, seen, depth + 1)
            h.update(b':')
            _fp(v, h, seen, depth + 1)
            h.update(b',')
        h.update(b'}')
        return
    if t in (set, frozenset):
        seen[oid] = len(seen)
        h.update(b'<set')
        for r in sorted(repr(x) for x in obj):
            h.update(r.encode())
        h.update(b'>')
        return
    mod = getattr(t, '__module__', '') or ''
    if callable(obj) and not hasattr(obj, '__dict__'):
        h.update(('<callable %s>' % getattr(obj, '__name__', '?')).encode())
        return
    if isinstance(obj, type) or t.__name__ in ('module', 'function', 'method', 'builtin_function_or_method'):
        h.update(('<%s %s>' % (t.__name__, getattr(obj, '__name__', '?'))).encode())
        return
    if mod.startswith('miasmx') or mod.startswith('vf.'):
        seen[oid] = len(seen)
        h.update(('<obj %s ' % t.__name__).encode())
        d = getattr(obj, '__dict__', None)
        if d is not None:
            for k in sorted(d):
                if k in IGNORED_ATTRS:
                    continue
                h.update(k.encode() + b'=')
                _fp(d[k], h, seen, depth + 1)
                h.update(b';')
        elif hasattr(obj, 'arg'):
            _fp(getattr(obj, 'arg'), h, seen, depth + 1)
        h.update(b'>')
        return
    h.update(('<%s>' % t.__name__).encode())


def fingerprint_tables(A, R, SEMM):
    """{table name: digest}"""
    out = {}

    def one(name, obj):
        h = hashlib.sha1()
        _fp(obj, h, {})
        out[name] = h.hexdigest()
    db = A.x86mndb
    for k, v in sorted(vars(db).items()):
        one('x86mndb.' + k, v)
    for k, v in sorted(vars(A).items()):
        if k.startswith('__') or k in ('x86mndb', 'x86mnemo', 'log'):
            continue
        if isinstance(v, (dict, list, tuple, set)):
            one('ia32_arch.' + k, v)
    for k, v in sorted(vars(A.x86_afs).items()):
        if not k.startswith('__') and isinstance(v, (dict, list, tuple, set)):
            one('x86_afs.' + k, v)
    for k, v in sorted(vars(R).items()):
        if not k.startswith('__') and isinstance(v, (dict, list, tuple, set)):
            one('ia32_reg.' + k, v)
    for k, v in sorted(vars(SEMM).items()):
        if k.startswith('__'):
            continue
        if isinstance(v, (dict, list, tuple, set)) or (type(v).__module__ or '').startswith('miasmx.expression'):
            one('ia32_sem.' + k, v)
    return out


def fp_diff(a, b):
    return sorted(k for k in set(a) | set(b) if a.get(k) != b.get(k))


# -------------------------------------------------------------------------------------------------
# structural comparison of decoded instructions with symbolic fields
# -------------------------------------------------------------------------------------------------
def norm(v):
    if isinstance(v, SInt):
        return ('n', v)
    if isinstance(v, bool) or v is None or isinstance(v, str):
        return ('c', v)
    if isinstance(v, int):
        return ('n', v)
    if hasattr(v, 'arg') and hasattr(v, 'size') and not isinstance(v, dict):
        return ('mod', type(v).__name__, norm(v.arg))
    if isinstance(v, dict):
        return ('dict', tuple(sorted(((repr(k), norm(x)) for k, x in v.items()), key=lambda kv: kv[0])))
    if isinstance(v, (list, tuple)):
        return ('seq', tuple(norm(x) for x in v))
    return ('r', repr(v))


def isnap(i):
    return ('instr', id(i.m), i.m.name, norm(list(i.prefix)), norm(i.l), norm(getattr(i, 'offset', None)), norm(i.opmode), norm(i.admode),
            norm([a for a in i.arg]))


def snap_eq(a, b, conds):
    """False when syntactically different; symbolic equalities are appended to conds"""
    if type(a) is not type(b):
        if isinstance(a, (int, SInt)) and isinstance(b, (int, SInt)):
            conds.append(core.term_of(a) == core.term_of(b))
            return True
        return False
    if isinstance(a, tuple):
        if len(a) != len(b):
            return False
        return all(snap_eq(x, y, conds) for x, y in zip(a, b))
    if isinstance(a, SInt):
        if not a.t.eq(b.t):
            conds.append(a.t == b.t)
        return True
    return a == b


def same(eng, a, b):
    """None = equal for all values of the path; else (model or None)"""
    conds = []
    if not snap_eq(a, b, conds):
        return ('diff', eng.witness())
    if not conds:
        return None
    st, m = eng.find(z3.Not(z3.And(*conds)))
    if st == 'unsat':
        return None
    if st == 'sat':
        return ('diff', m)
    return ('unknown', None)


def render_both(i):
    return (str(i), i.__str__('att_syntax binutils'))


def interleave():
    A = E.A
    for b in INTERLEAVE_BYTES:
        try:
            j = A.x86mnemo.dis(b)
            if j is not None:
                str(j)
                try:
                    EH.get_instr_expr(j, X.ExprInt(M.uint32(j.l)), [])
                except Exception:
                    pass
        except Exception:
            pass
    for l in INTERLEAVE_LINES:
        try:
            A.x86mnemo.asm(l)
        except Exception:
            pass


def reset_memo():
    """paths must be independent of each other (replay-based exploration): the memo marks earlier paths left on the
    module-level register objects are cleared at the start of a path - NOT between the two calls of one path"""
    for v in vars(SEM).values():
        if isinstance(v, X.Expr):
            for k in IGNORED_ATTRS:
                v.__dict__.pop(k, None)


def lift(i):
    return EH.get_instr_expr(i, X.ExprInt(M.uint32(i.l)), [])


def run_dec(job, res):
    from vf.checks import c11, c13
    c13.X = X
    ejob = job[1]
    prefixes, opc, last, sibmode, rowname = ejob
    title = 'dis/lift twice %s|%s%s %s' % (' '.join('%02x' % p for p in prefixes), ' '.join('%02x' % b for b in opc), '' if last is None else ' {%02x..}' % last[0], rowname)
    c11.SEM, c11.X = SEM, X
    fp0 = fingerprint_tables(E.A, E.R, SEM)
    seen = set()
    wits = []

    def on_path(eng, d):
        if d.kind != 'ok':
            return ('SKIP',)
        i1 = d.instr
        name = i1.m.name
        items0 = list(d.data.items)
        w = E.witness_bytes(eng, d)[:i1.l + 2]
        wits.append(w)
        s1 = isnap(i1)
        liftable = name in SEM.mnemo_func or '#' in name
        a1 = None
        reset_memo()
        if liftable:
            try:
                a1 = lift(i1)
            except PathAbort:
                raise
            except Exception:
                a1 = None            # C11's subject
            r = same(eng, s1, isnap(i1))
            if r is not None:
                if r[0] == 'unknown':
                    return ('ABORT', 'frame query unknown')
                return ('CEX', 'frame:lift-modifies-instruction:%s' % name, '%s: lifting changed the decoded instruction passed in' % name, E.witness_bytes(eng, d, r[1])[:i1.l + 2])
        interleave()
        if len(d.data.items) != len(items0) or any(x is not y for x, y in zip(d.data.items, items0)):
            return ('CEX', 'frame:dis-modifies-bytes:%s' % name, '%s: the byte container passed to dis() changed' % name, w)
        data2 = SBytes(list(items0))
        try:
            i2 = E.A.x86mnemo.dis(data2)
        except PathAbort:
            raise
        except Exception as ex:
            return ('CEX', 'repeat:dis-raises:%s' % name, '%s: the second dis() of the same bytes raises %s' % (name, type(ex).__name__), w)
        if i2 is None:
            return ('CEX', 'repeat:dis-absent:%s' % name, '%s: the second dis() of the same bytes reports no instruction' % name, w)
        r = same(eng, s1, isnap(i2))
        if r is not None:
            if r[0] == 'unknown':
                return ('ABORT', 'repeat query unknown')
            return ('CEX', 'repeat:dis-differs:%s' % name, '%s: the second dis() of the same bytes returns a different instruction' % name, E.witness_bytes(eng, d, r[1])[:i1.l + 2])
        if liftable and a1 is not None:
            try:
                a2 = lift(i2)
            except PathAbort:
                raise
            except Exception as ex:
                return ('CEX', 'repeat:lift-raises:%s' % name, '%s: the second lift raises %s' % (name, type(ex).__name__), w)
            if len(a1) != len(a2):
                return ('CEX', 'repeat:lift-differs:%s' % name, '%s: the second lift returns %d assignments, the first %d' % (name, len(a2), len(a1)), w)
            eqs = []
            for x, y in zip(a1, a2):
                e = c13.struct_eq(x, y)
                if e is False:
                    return ('CEX', 'repeat:lift-differs:%s' % name, '%s: the second lift returns a different assignment list' % name, w)
                if e is not True:
                    eqs.append(e)
            if eqs:
                st, m = eng.find(z3.Not(z3.And(*eqs)))
                if st == 'sat':
                    return ('CEX', 'repeat:lift-differs:%s' % name, '%s: the second lift returns a different assignment list' % name, E.witness_bytes(eng, d, m)[:i1.l + 2])
                if st != 'unsat':
                    return ('ABORT', 'lift equality unknown')
        # rendering, at the path witness (concrete): both syntaxes twice - the text must not depend on an earlier rendering
        # and the instruction object must stay as decoded
        try:
            iw = E.A.x86mnemo.dis(bytes(w) + b'\x90' * 4)
        except PathAbort:
            raise
        except Exception:
            iw = None
        if iw is not None:
            sw = isnap(iw)
            try:
                t1 = render_both(iw)
                t2 = render_both(iw)
            except PathAbort:
                raise
            except Exception:
                t1 = t2 = None       # C10's subject
            if t1 != t2:
                return ('CEX', 'repeat:render-differs:%s' % name, '%s: rendering the same instruction object twice gives %r then %r' % (name, t1, t2), w)
            if same(eng, sw, isnap(iw)) is not None:
                return ('CEX', 'frame:render-modifies-instruction:%s' % name, '%s: rendering changed the instruction object' % name, w)
        return ('OK', name)
    eng, rs = E.explore(ejob, on_path, max_paths=60000, max_seconds=600)
    res['paths'] += eng.stats['paths']
    res['queries'] += eng.stats['queries']
    res['solver_s'] += eng.stats['solver_s']
    for u in eng.unexplored:
        res['inconclusive'].append('%s: %s' % (title, u))
    ok = 0
    for r in rs:
        if r[0] == 'OK':
            ok += 1
            res['obligations'] += 1
            res['proved'] += 1
        elif r[0] == 'CEX':
            res['obligations'] += 1
            if r[1] in seen:
                continue
            seen.add(r[1])
            res['candidates'].append({'key': 'dis:' + r[1], 'desc': r[2] + ' e.g. ' + ' '.join('%02x' % b for b in r[3]),
                                      'data': {'kind': 'dis', 'what': r[1].split(':')[0] + ':' + r[1].split(':')[1], 'bytes': [list(r[3])]}})
        elif r[0] == 'SKIP':
            pass
        else:
            res['inconclusive'].append('%s: %s' % (title, r[1] if len(r) > 1 else r[0]))
    # shared tables
    res['obligations'] += 1
    fp1 = fingerprint_tables(E.A, E.R, SEM)
    df = fp_diff(fp0, fp1)
    if df:
        res['candidates'].append({'key': 'dis:tables:' + '+'.join(df)[:120], 'desc': 'decoding / rendering / lifting the instructions of row %s changed shared tables: %s' % (title, ', '.join(df)[:200]),
                                  'data': {'kind': 'dis', 'what': 'tables', 'bytes': [list(w) for w in wits[:400]]}})
    else:
        res['proved'] += 1
    if ok:
        res['nontrivial'] += 1
        if len(res['samples']) < 2:
            res['samples'].append({'row': title, 'paths': len(rs), 'verdict': 'second dis/lift equal to the first on %d path(s) for all byte values; tables unchanged (%d fingerprints)' % (ok, len(fp1))})


def run_asm(job, res):
    _, tier, lines = job
    fp0 = fingerprint_tables(E.A, E.R, SEM)
    allw = []
    for tmpl0 in lines:
        tmpl, k = AD.fill(tmpl0)
        res['programs'] = res.get('programs', 0) + 1
        eng = Engine(width=72, timeout_ms=10000, max_paths=400, max_seconds=60)

        def fn(eng):
            syms = [SInt.var('n%d' % j, 0, (1 << 32) - 1) for j in range(k)]

            def once():
                try:
                    r = AD.asm(tmpl, syms)
                except PathAbort:
                    raise
                except Exception as ex:
                    return ('exc', type(ex).__name__)
                return ('ok', [AD.as_sbytes(b) for b in r]) if isinstance(r, list) and not (r and isinstance(r[0], list)) else ('other', repr(type(r)))
            r1 = once()
            interleave()
            r2 = once()
            vals = eng.model_inputs(eng.witness())
            if r1[0] != r2[0]:
                return ('CEX', 'repeat:asm-outcome', 'the second asm() of the same line ends differently (%s, then %s)' % (r1[0], r2[0]), vals)
            if r1[0] != 'ok':
                return ('OK',) if r1 == r2 else ('CEX', 'repeat:asm-outcome', 'the second asm() raises %s, the first %s' % (r2[1], r1[1]), vals)
            if len(r1[1]) != len(r2[1]):
                return ('CEX', 'repeat:asm-candidates', 'the second asm() returns %d candidates, the first %d' % (len(r2[1]), len(r1[1])), vals)
            conds = []
            for x, y in zip(r1[1], r2[1]):
                if len(x.items) != len(y.items):
                    return ('CEX', 'repeat:asm-candidates', 'the second asm() returns candidates of other lengths', vals)
                for p, q in zip(x.items, y.items):
                    if isinstance(p, int) and isinstance(q, int):
                        if p != q:
                            return ('CEX', 'repeat:asm-candidates', 'the second asm() returns other bytes', vals)
                    else:
                        conds.append(z3.Extract(7, 0, core.term_of(p)) == z3.Extract(7, 0, core.term_of(q)))
            if conds:
                st, m = eng.find(z3.Not(z3.And(*conds)))
                if st == 'sat':
                    return ('CEX', 'repeat:asm-candidates', 'the second asm() returns other bytes', eng.model_inputs(m))
                if st != 'unsat':
                    return ('ABORT', 'unknown')
            return ('OK',)
        rs = eng.explore(fn)
        res['paths'] += eng.stats['paths']
        res['queries'] += eng.stats['queries']
        res['solver_s'] += eng.stats['solver_s']
        for u in eng.unexplored:
            res['inconclusive'].append('asm %s: %s' % (tmpl0, u))
        for r in rs:
            if r[0] == 'OK':
                res['obligations'] += 1
                res['proved'] += 1
            elif r[0] == 'CEX':
                res['obligations'] += 1
                res['candidates'].append({'key': 'asm:%s:%s' % (r[1], tmpl0), 'desc': 'asm(%r): %s with %s' % (tmpl, r[2], r[3]),
                                          'data': {'kind': 'asm', 'what': r[1], 'tmpl': tmpl, 'vals': [r[3].get('n%d' % j, 0) for j in range(k)]}})
            else:
                res['inconclusive'].append('asm %s: %s' % (tmpl0, r[1] if len(r) > 1 else r[0]))
        allw.append((tmpl, k))
    res['obligations'] += 1
    fp1 = fingerprint_tables(E.A, E.R, SEM)
    df = fp_diff(fp0, fp1)
    if df:
        res['candidates'].append({'key': 'asm:tables:' + '+'.join(df)[:120], 'desc': 'assembling changed shared tables: %s' % ', '.join(df)[:200],
                                  'data': {'kind': 'asm', 'what': 'tables', 'lines': [t.format(*([7] * k)) for t, k in allw]}})
    else:
        res['proved'] += 1
    res['nontrivial'] += 1


def _outcome(fn_):
    try:
        r = fn_()
    except PathAbort:
        raise
    except Exception as ex:
        return ('exc', type(ex).__name__)
    return ('ok', [AD.as_sbytes(b) for b in r]) if isinstance(r, list) and not (r and isinstance(r[0], list)) else ('other', repr(type(r)))


def _same_outcome(eng, r1, r2, what):
    vals = eng.model_inputs(eng.witness())
    if r1[0] != r2[0]:
        return ('CEX', what + '-outcome', 'ends differently (%s, then %s)' % (r1[0], r2[0]), vals)
    if r1[0] != 'ok':
        return ('OK',) if r1 == r2 else ('CEX', what + '-outcome', 'raises %s instead of %s' % (r2[1], r1[1]), vals)
    if len(r1[1]) != len(r2[1]):
        return ('CEX', what + '-candidates', '%d candidates instead of %d' % (len(r2[1]), len(r1[1])), vals)
    conds = []
    for x, y in zip(r1[1], r2[1]):
        if len(x.items) != len(y.items):
            return ('CEX', what + '-candidates', 'candidates of other lengths', vals)
        for p, q in zip(x.items, y.items):
            if isinstance(p, int) and isinstance(q, int):
                if p != q:
                    return ('CEX', what + '-candidates', 'other bytes', vals)
            else:
                conds.append(z3.Extract(7, 0, core.term_of(p)) == z3.Extract(7, 0, core.term_of(q)))
    if conds:
        st, m = eng.find(z3.Not(z3.And(*conds)))
        if st == 'sat':
            return ('CEX', what + '-candidates', 'other bytes', eng.model_inputs(m))
        if st != 'unsat':
            return ('ABORT', 'unknown')
    return ('OK',)


def run_hist(job, res):
    _, tier, pairs = job
    for first, second, optext in pairs:
        res['programs'] = res.get('programs', 0) + 1
        l1, l2 = first.replace('{O}', optext).replace('{N}', '{0}'), second.replace('{O}', optext).replace('{N}', '{0}')
        eng = Engine(width=72, timeout_ms=10000, max_paths=100, max_seconds=60)

        def fn(eng):
            n = SInt.var('n0', 0, (1 << 32) - 1)
            pa, pb = AD.fresh_placeholders(1), AD.fresh_placeholders(1)
            ref = _outcome(lambda: AD.asm(l2, [n], ph=pa))      # the second line on an operand text of its own
            _outcome(lambda: AD.asm(l1, [n], ph=pb))            # the first line introduces the operand text ...
            r = _outcome(lambda: AD.asm(l2, [n], ph=pb))        # ... the second line meets it again
            return _same_outcome(eng, ref, r, 'history:asm')
        rs = eng.explore(fn)
        res['paths'] += eng.stats['paths']
        res['queries'] += eng.stats['queries']
        res['solver_s'] += eng.stats['solver_s']
        name = '%s ; %s' % (l1, l2)
        for u in eng.unexplored:
            res['inconclusive'].append('hist %s: %s' % (name, u))
        ok = 0
        for r in rs:
            if r[0] == 'OK':
                ok += 1
                res['obligations'] += 1
                res['proved'] += 1
            elif r[0] == 'CEX':
                res['obligations'] += 1
                res['candidates'].append({'key': 'asm:%s:%s after %s' % (r[1], second.replace('{O}', optext), first.split()[0]),
                                          'desc': 'asm(%r) after asm(%r): %s with %s' % (l2, l1, r[2], r[3]),
                                          'data': {'kind': 'hist', 'what': r[1], 'first': l1, 'second': l2, 'vals': [r[3].get('n0', 0)]}})
            else:
                res['inconclusive'].append('hist %s: %s' % (name, r[1] if len(r) > 1 else r[0]))
        if ok:
            res['nontrivial'] += 1


def hist_jobs(tier):
    pairs = [(f, s_, o) for o, seconds in HIST_OPS.items() for s_ in seconds for f in HIST_FIRST if f.split()[0] != s_.split()[0] or f != s_]
    return [('hist12', tier, pairs[i:i + 40]) for i in range(0, len(pairs), 40)]


def jobs(tier, seed):
    import random
    if E.A is None:
        from vf import common
        common.env_setup()
        worker_init()
    rnd = random.Random(seed)
    if tier == 'quick':
        # every row without prefix (hidden state is per instruction: a sample of rows would miss e.g. pushfd), one row per signature under 66
        # ... and under a segment override, an address-size and a rep prefix (prefixes select other decoder paths, e.g. the loop that tags operands with the segment)
        ej = E.make_jobs(tier, seed, prefix_sets=[()], sib='min', per_signature=False) + \
            E.make_jobs(tier, seed, prefix_sets=[(0x66,), (0x64,), (0x67,), (0xF3,)], sib='one', per_signature=True)
        # MMX / SSE rows under their mandatory prefixes (the prefix selects the mnemonic: other decoder and rendering paths)
        have = set((j[0], j[1], j[2]) for j in ej)
        for ps in ((0x66,), (0xF2,), (0xF3,)):
            for j in E.make_jobs(tier, seed, prefix_sets=[ps], sib='one', per_signature=False):
                if E._row_is_mmx(j[1], j[2]) and (j[0], j[1], j[2]) not in have:
                    ej.append(j)
    else:
        ej = E.make_jobs(tier, seed, prefix_sets=[(), (0x66,), (0x67,), (0xF3,), (0xF2,), (0x2E,), (0x64,)], sib='min', per_signature=False)
    out = [('dis12', j, tier) for j in ej]
    out.append(('asm12', tier, list(ASM_LINES)))
    out += hist_jobs(tier)
    return out


def run(job, res):
    if job[0] == 'dis12':
        run_dec(job, res)
    elif job[0] == 'hist12':
        run_hist(job, res)
    else:
        run_asm(job, res)


REPLAY = r'''
# replay of a C12 (decoder / lifter / assembler part) counterexample on the real code from a fresh process
# (exit 1 = a repeated call differs, an input was modified, or shared tables changed)
import sys
import miasmx.arch.ia32_arch as A, miasmx.arch.ia32_reg as R, miasmx.arch.ia32_sem as SEM
import miasmx.tools.emul_helper as EH, miasmx.expression.expression as X, miasmx.tools.modint as M
from vf.checks import c12d
from vf.x86 import explore as E
E.A = A; E.R = R; c12d.SEM = SEM; c12d.EH = EH; c12d.X = X; c12d.M = M
D = %(data)r
bad = False
def reset_memo():
    """paths must be independent of each other (replay-based exploration): the memo marks earlier paths left on the
    module-level register objects are cleared at the start of a path - NOT between the two calls of one path"""
    for v in vars(SEM).values():
        if isinstance(v, X.Expr):
            for k in IGNORED_ATTRS:
                v.__dict__.pop(k, None)


def lift(i):
    try: return [str(a) for a in EH.get_instr_expr(i, X.ExprInt(M.uint32(i.l)), [])]
    except Exception as ex: return 'raises ' + type(ex).__name__
def show(i):
    return None if i is None else (i.m.name, id(i.m), list(i.prefix), i.l, i.opmode, i.admode, repr(c12d.norm(list(i.arg))))
if D['kind'] == 'dis':
    fp0 = c12d.fingerprint_tables(A, R, SEM)
    for bs in D['bytes']:
        b = bytes(bs) + b'\x90' * 4
        i1 = A.x86mnemo.dis(b)
        if i1 is None: continue
        s1 = show(i1); liftable = i1.m.name in SEM.mnemo_func or '#' in i1.m.name
        a1 = lift(i1) if liftable else None
        if show(i1) != s1: bad = True; print(bytes(bs).hex(), 'lifting changed the instruction object')
        c12d.interleave()
        i2 = A.x86mnemo.dis(b)
        if show(i2) != s1: bad = True; print(bytes(bs).hex(), 'second dis():', show(i2), 'first:', s1)
        if i2 is not None:
            try:
                t1 = c12d.render_both(i2); t2 = c12d.render_both(i2)
                if t1 != t2: bad = True; print(bytes(bs).hex(), 'rendered twice:', t1, 'then', t2)
            except Exception as ex: print('rendering raises', type(ex).__name__)
            if show(i2) != s1: bad = True; print(bytes(bs).hex(), 'rendering changed the instruction object:', show(i2), 'was', s1)
        if liftable and i2 is not None and lift(i2) != a1: bad = True; print(bytes(bs).hex(), 'second lift differs')
        fp1 = c12d.fingerprint_tables(A, R, SEM)
        df = c12d.fp_diff(fp0, fp1)
        if df: bad = True; print(bytes(bs).hex(), str(i1).strip(), ': shared tables changed:', df); break
elif D['kind'] == 'hist':
    import subprocess, json
    l1, l2 = D['first'].format(*D['vals']), D['second'].format(*D['vals'])
    prog = ("import sys, json; import miasmx.arch.ia32_arch as A\n"
            "def once(l):\n    try: return [bytes(x).hex() for x in A.x86mnemo.asm(l)]\n    except Exception as ex: return 'raises ' + type(ex).__name__\n"
            "ls = json.loads(sys.argv[1]); r = None\nfor l in ls: r = once(l)\nprint(json.dumps(r))")
    def fresh(ls):
        return json.loads(subprocess.run([sys.executable, '-c', prog, json.dumps(ls)], capture_output=True, text=True, timeout=120).stdout.strip().splitlines()[-1])
    ref, r = fresh([l2]), fresh([l1, l2])
    print(repr(l2), 'alone (fresh process):', ref); print(repr(l2), 'after', repr(l1), '(fresh process):', r)
    bad = ref != r
else:
    fp0 = c12d.fingerprint_tables(A, R, SEM)
    ls = D.get('lines') or [D['tmpl'].format(*D['vals'])]
    for line in ls:
        def once():
            try: return [bytes(x).hex() for x in A.x86mnemo.asm(line)]
            except Exception as ex: return 'raises ' + type(ex).__name__
        r1 = once(); c12d.interleave(); r2 = once()
        if r1 != r2: bad = True; print(repr(line), 'first:', r1, 'second:', r2)
        df = c12d.fp_diff(fp0, c12d.fingerprint_tables(A, R, SEM))
        if df: bad = True; print(repr(line), ': shared tables changed:', df); break
print('C12 replay:', 'VIOLATED' if bad else 'holds')
sys.exit(1 if bad else 0)
'''


def make_replay(cnd):
    return REPLAY % {'data': cnd['data']}
