"""C10 - decoder and assembler are total: reject cleanly, never crash or over-read.

Decoder: E2 runs the real x86mnemo.dis on prefixes || opcode || 11 symbolic bytes for the rows of the
live opcode trie.  On every path: outcome is None or an instruction, no exception escapes, 0 < l <= len,
no byte at index >= l was read, the reported raw bytes are the consumed prefix of the input.  At the path
witnesses (concrete): both renderings succeed, every strict truncation is reported absent, decoding from a
stream at offsets 0/1/5 gives the same instruction, records the offset and leaves the stream after it.
Assembler: see c10a (token sequences through the real parsers), run from main().
"""
import os
import random
import re
import sys
import time
import traceback

import z3

from vf import common
from vf.symex import core, instr
from vf.symex.core import SInt, SBool, Engine, PathAbort
from vf.x86 import explore as E

PROP = 'C10'


def worker_init():
    E.worker_init()
    try:
        from vf.checks import c10a
        c10a.worker_init()
    except ImportError:
        pass


def crash_site(ex):
    """(function, normalised source text) of the innermost /repo frame of an exception"""
    tb = traceback.extract_tb(ex.__traceback__)
    site = None
    for fr in tb:
        if '/miasmx/' in fr.filename or '/ply/' in fr.filename:
            site = fr
    if site is None:
        return ('?', '?')
    line = re.sub(r'\s+', ' ', (site.line or '').strip())[:70]
    return (site.name, line)


def exc_key(prefix, ex):
    fn, line = crash_site(ex)
    return '%s:%s:%s:%s' % (prefix, type(ex).__name__, fn, line)


def concrete_checks(wit, l):
    """witness-level clauses on the concrete bytes wit (list of ints); returns list of (tag, description)"""
    A = E.A
    from miasmx.core.bin_stream import bin_stream_str
    out = []
    data = bytes(wit)
    try:
        i = A.x86mnemo.dis(data)
    except Exception as ex:
        return [('concrete-exc:' + type(ex).__name__, 'concrete decode raises %s' % ex)]
    if i is None:
        return [('concrete-none', 'concrete decode of the witness returns None')]
    for fmt in (None, 'att_syntax binutils'):
        try:
            s = i.__str__(fmt) if fmt else str(i)
        except Exception as ex:
            fn, line = crash_site(ex)
            out.append(('render:%s:%s:%s:%s' % ('att' if fmt else 'intel', type(ex).__name__, fn, line),
                        '%s rendering raises %s: %s' % ('AT&T' if fmt else 'Intel', type(ex).__name__, str(ex)[:60])))
    for L in range(1, i.l):
        try:
            t = A.x86mnemo.dis(data[:L])
        except Exception as ex:
            out.append(('trunc-exc:%s' % type(ex).__name__, 'truncation to %d bytes raises %s' % (L, ex)))
            continue
        if t is not None:
            out.append(('trunc-accepted', 'truncation to %d of %d bytes is reported as an instruction of length %d' % (L, i.l, t.l)))
            break
    for off in (0, 1, 5):
        buf = bytes([0x90] * off) + data
        st = bin_stream_str(buf, off)
        try:
            j = A.x86mnemo.dis(st)
        except Exception as ex:
            out.append(('stream-exc:%s' % type(ex).__name__, 'decoding from a stream at offset %d raises %s' % (off, ex)))
            continue
        if j is None:
            out.append(('stream-none', 'decoding from a stream at offset %d returns None' % off))
            continue
        if j.l != i.l or j.offset != off or st.offset != off + i.l or bytes(j.b) != bytes(i.b):
            out.append(('stream-offset', 'stream at offset %d: l=%d offset=%r stream.offset=%r' % (off, j.l, j.offset, st.offset)))
        else:
            try:
                if str(j) != str(i):
                    out.append(('stream-differs', 'stream at offset %d decodes %s instead of %s' % (off, j, i)))
            except Exception:
                pass
    return out


def run_dec(job, res, tier):
    prefixes, opc, last, sibmode, rowname = job
    name = 'dis %s|%s%s %s' % (' '.join('%02x' % p for p in prefixes), ' '.join('%02x' % b for b in opc),
                               '' if last is None else ' {%02x..}' % last[0], rowname)
    seen = set()
    lenwits = []

    def on_path(eng, d):
        if d.kind == 'exc':
            wit = E.witness_bytes(eng, d)
            return ('CEX', exc_key('dis', d.exc), '%s raises %s: %s' % (name, type(d.exc).__name__, str(d.exc)[:60]), wit, 'exc')
        if d.kind == 'none':
            return ('NONE',)
        i = d.instr
        n = len(d.data.items)
        if not isinstance(i.l, int):
            return ('ABORT', 'symbolic length')
        if not (0 < i.l <= n):
            return ('CEX', 'dis:length', '%s: reported length %r for %d input bytes' % (name, i.l, n), E.witness_bytes(eng, d), 'length')
        if d.maxread >= i.l:
            return ('CEX', 'dis:overread', '%s: read byte %d of an instruction of length %d' % (name, d.maxread, i.l), E.witness_bytes(eng, d), 'overread')
        eqb = (i.b == d.data[0:i.l]) if isinstance(i.b, instr.SBytes) else False
        if eqb is not True:
            if isinstance(eqb, SBool):
                if not eng.prove(eqb.t):
                    return ('CEX', 'dis:rawbytes', '%s: reported raw bytes differ from the consumed input' % name, E.witness_bytes(eng, d), 'rawbytes')
            else:
                return ('CEX', 'dis:rawbytes', '%s: reported raw bytes are not the consumed input' % name, E.witness_bytes(eng, d), 'rawbytes')
        wits = E.extreme_witnesses(eng, d) if tier == 'thorough' else [E.witness_bytes(eng, d)]
        bad = []
        for w in wits:
            for tag, desc in concrete_checks(w[:i.l] + [0xCC] * 0, i.l):
                bad.append((tag, desc, w[:i.l]))
        if bad:
            return ('CEXS', bad, i.m.name)
        lenwits.append((tuple(wits[0][:min(len(wits[0]), 15)]), i.l, i.m.name))
        return ('OK', i.m.name, i.l)
    eng, rs = E.explore(job, on_path, tier=tier, max_paths=60000, max_seconds=1200 if tier == 'thorough' else 240)
    res['paths'] += eng.stats['paths']
    res['queries'] += eng.stats['queries']
    res['solver_s'] += eng.stats['solver_s']
    for u in eng.unexplored:
        res['inconclusive'].append('%s: %s' % (name, u))
    ok = 0
    for r in rs:
        if r[0] in ('OK', 'NONE'):
            ok += 1
            res['obligations'] += 1
            res['proved'] += 1
            if r[0] == 'OK':
                res['decoded'] = res.get('decoded', 0) + 1
        elif r[0] == 'CEX':
            res['obligations'] += 1
            if r[1] in seen:
                continue
            seen.add(r[1])
            res['candidates'].append({'key': r[1], 'desc': r[2] + ' e.g. ' + ' '.join('%02x' % b for b in r[3][:15]),
                                      'data': {'kind': 'dis', 'bytes': r[3], 'what': r[4], 'key': r[1]}})
        elif r[0] == 'CEXS':
            res['obligations'] += 1
            for tag, desc, w in r[1]:
                key = 'dis:%s:%s' % (tag, _mn_class(r[2]))
                if key in seen:
                    continue
                seen.add(key)
                res['candidates'].append({'key': key, 'desc': '%s: %s e.g. %s' % (name, desc, ' '.join('%02x' % b for b in w)),
                                          'data': {'kind': 'dis', 'bytes': w, 'what': tag, 'key': key}})
        elif r[0] == 'ABORT':
            res['inconclusive'].append('%s: %s' % (name, r[1]))
        else:
            res['inconclusive'].append('%s: %r' % (name, r[:2]))
    # "nor consumes bytes beyond the instruction": the decoder's own length is checked against GNU objdump at the path witnesses
    # (arbiter level, labelled so); only over-reads are C10's subject, any other disagreement is C01's
    if lenwits:
        from vf.oracles import objdump as OD
        uniq = list(dict.fromkeys(lenwits))[:2000]
        for (w, l, mn), od in zip(uniq, OD.disassemble([bytes(w) for w, _, _ in uniq])):
            if od is None or '(bad)' in od[1] or od[1].startswith('.byte'):
                continue
            if od[0] < l:
                key = 'dis:over-read:%s:%s|%s' % (_mn_class(mn), ' '.join('%02x' % p_ for p_ in prefixes), ' '.join('%02x' % b_ for b_ in opc) + ('' if last is None else ' {%02x..}' % last[0]))
                if key in seen:
                    continue
                seen.add(key)
                res['candidates'].append({'key': key, 'desc': '%s: the decoder consumes %d bytes, the instruction (%s) has %d e.g. %s' % (name, l, od[1], od[0], ' '.join('%02x' % b for b in w[:l])),
                                          'data': {'kind': 'dis', 'bytes': list(w), 'what': 'over-read', 'key': key}})
    if ok:
        res['nontrivial'] += 1
        if len(res['samples']) < 2:
            res['samples'].append({'row': name, 'paths': len(rs), 'verdict': '%d path(s): None or a well-delimited instruction, no exception, no over-read' % ok})


def _mn_class(name):
    """finding-key component: MMX/SSE scheme names ('#..#') are one class, the other mnemonics stand for themselves"""
    return 'mmx-sse' if '#' in name else name


def jobs(tier, seed):
    if E.A is None:
        common.env_setup()
        E.worker_init()
    if tier == 'quick':
        js = E.make_jobs(tier, seed, sib='reps', per_signature=True, prefix_sets=E.PREFIX_SETS_QUICK)
        js += E.make_jobs(tier, seed, sib='min', per_signature=True, prefix_sets=[(0x66, 0x66), (0x67, 0x67)])
    else:
        js = E.make_jobs(tier, seed, sib='reps', per_signature=False, prefix_sets=[(), (0x66,), (0x67,)])
        js += E.make_jobs(tier, seed, sib='min', per_signature=False, prefix_sets=[(0x66, 0x67), (0x2E,), (0xF2,), (0xF3,), (0xF0,), (0x67, 0x26), (0x66, 0x66), (0x67, 0x67)])
    out = [('dec', j, tier) for j in js]
    # the rendering clauses depend on the mnemonic, not on the row signature: every row once, concretely
    rs = E.rows()
    for k in range(0, len(rs), 40):
        out.append(('render', [(r[0], r[1]) for r in rs[k:k + 40]], tier))
    return out


def run_render(job, res):
    """witness-level rendering / truncation / stream clauses for EVERY row of the trie (concrete representative bytes)"""
    rows, tier = job[1], job[2]
    seen = set()
    for opc, last in rows:
        lasts = [None] if last is None else [last[0], last[-1]]
        for lb in lasts:
            for pfx in ((), (0x66,), (0x67,), (0xF3,), (0x2E,)):
                for tail in (b'\x00' * 11, b'\xc1\x24\x11\x22\x33\x44\x55\x66\x77\x00\x00', b'\x84\x24' + b'\xff' * 9, b'\xff' * 11):
                    data = bytes(pfx) + bytes(opc) + (bytes([lb]) if lb is not None else b'') + tail
                    try:
                        i = E.A.x86mnemo.dis(data)
                    except Exception as ex:
                        key = exc_key('dis', ex)
                        if key not in seen:
                            seen.add(key)
                            res['candidates'].append({'key': key, 'desc': 'dis raises %s: %s e.g. %s' % (type(ex).__name__, str(ex)[:50], data.hex()),
                                                      'data': {'kind': 'dis', 'bytes': list(data), 'what': 'exc', 'key': key}})
                        continue
                    if i is None:
                        continue
                    res['obligations'] += 1
                    bad = concrete_checks(list(data[:i.l]), i.l)
                    if not bad:
                        res['proved'] += 1
                    for tag, desc in bad:
                        key = 'dis:%s:%s' % (tag, _mn_class(i.m.name))
                        if key in seen:
                            continue
                        seen.add(key)
                        res['candidates'].append({'key': key, 'desc': '%s e.g. %s' % (desc, data[:i.l].hex()),
                                                  'data': {'kind': 'dis', 'bytes': list(data[:i.l]), 'what': tag, 'key': key}})
    res['nontrivial'] += 1


def run_job(job):
    res = {'paths': 0, 'queries': 0, 'solver_s': 0.0, 'obligations': 0, 'proved': 0, 'candidates': [],
           'inconclusive': [], 'samples': [], 'programs': 1, 'nontrivial': 0}
    if job[0] == 'dec':
        run_dec(job[1], res, job[2])
    elif job[0] == 'render':
        run_render(job, res)
    else:
        from vf.checks import c10a
        c10a.run(job, res)
    return res


REPLAY = r'''
# replay of a C10 decoder counterexample on the real x86 decoder (exit 1 = property violated)
import sys, re, traceback
from miasmx.arch.ia32_arch import x86mnemo
from miasmx.core.bin_stream import bin_stream_str
D = %(data)r
data = bytes(D['bytes']); what = D['what']; bad = False
print('bytes:', data.hex())
try:
    i = x86mnemo.dis(data)
except Exception as ex:
    print('dis raises', type(ex).__name__, ex); bad = what == 'exc' or what.startswith('concrete-exc'); i = None
    if not bad: bad = True
if i is not None:
    print('decoded: l=%%d %%s' %% (i.l, i.m.name))
    if what == 'length': bad = not (0 < i.l <= len(data))
    elif what == 'rawbytes': bad = bytes(i.b) != data[:i.l]
    elif what == 'overread':
        class Spy(bytes):
            pass
        try: bad = x86mnemo.dis(data[:i.l]) is None
        except Exception: bad = True
    elif what == 'over-read':
        from vf.oracles import objdump as OD
        od = OD.disassemble([data])[0]
        print('objdump:', od)
        bad = od is not None and '(bad)' not in od[1] and od[0] < i.l
    elif what.startswith('render'):
        fmt = 'att_syntax binutils' if ':att:' in what else None
        try: print(i.__str__(fmt) if fmt else str(i))
        except Exception as ex: print('rendering raises', type(ex).__name__, ex); bad = True
    elif what.startswith('trunc'):
        for L in range(1, i.l):
            try:
                t = x86mnemo.dis(data[:L])
                if t is not None: print('truncation to', L, 'bytes accepted as', t.m.name, t.l); bad = True
            except Exception as ex: print('truncation to', L, 'raises', type(ex).__name__, ex); bad = True
    elif what.startswith('stream'):
        for off in (0, 1, 5):
            st = bin_stream_str(bytes([0x90] * off) + data, off)
            try:
                j = x86mnemo.dis(st)
                if j is None or j.l != i.l or j.offset != off or st.offset != off + i.l or str(j) != str(i): print('offset', off, '->', j and (j.l, j.offset, st.offset)); bad = True
            except Exception as ex: print('stream decode raises', type(ex).__name__, ex); bad = True
print('C10 replay:', 'VIOLATED' if bad else 'holds')
sys.exit(1 if bad else 0)
'''


def make_replay(cnd):
    if cnd['data'].get('kind') == 'dis':
        return REPLAY % {'data': cnd['data']}
    from vf.checks import c10a
    return c10a.make_replay(cnd)


def main(argv=None):
    from vf.checks import c05
    a = common.tier_seed(argv)
    t0 = time.time()
    js = jobs(a.tier, a.seed)
    try:
        from vf.checks import c10a
        js = js + c10a.jobs(a.tier, a.seed)
    except ImportError:
        pass
    if a.only:
        js = [j for j in js if a.only in repr(j)]
    results, left = common.run_pool('vf.checks.c10', js, nproc=a.nproc, budget_s=1500 if a.tier == 'quick' else 7200)
    cov, cands, inconc, herr = c05.aggregate(results, left)
    cov['exhaustive'] = False
    cov['decoded_paths'] = sum(r.get('decoded', 0) for r in results if 'harness_error' not in r)
    cov['rule'] = 'a program = one (prefix set, opcode row) with all following bytes symbolic, or one token-sequence family; non-trivial = at least one path proved'
    cov['functions_encoded'] = ['miasmx.arch.ia32_arch:x86_mn._dis/special_opcodes, x86allmncs.get_afs/get_afs_re/get_im_fmt/modrm, x86_mn.intsize', 'miasmx.core.bin_stream:bin_stream_str.readbs',
                                'x86_mn.__str__/dict_to_ad (witness level)']
    cov['bounds'] = ('rows of the live opcode trie (%s) x prefix sets; 11 symbolic bytes after the opcode; SIB byte restricted to 12 representatives; '
                     'rendering / truncation / stream-offset clauses at path witnesses only' % ('one per row signature' if a.tier == 'quick' else 'all rows'))
    if cov['proved'] == 0:
        herr.append('vacuous: nothing proved')
    assumptions = ['string formatting of an integer does not raise depending on its value (rendering checked at witnesses)', 'z3 5.1.0', 'SInt/SBytes proxies']
    return common.finish(PROP, a.tier, a.seed, 'model_checking', t0, cov, assumptions, cands, herr, inconc, make_replay)


if __name__ == '__main__':
    sys.exit(main())
