"""E1: miasmX IR (Expr trees built by the real code) -> z3 bit-vector terms (DESIGN section 4).

strict=True  : type checker; raises IllTyped(msg, subexpr) on any width violation C11 forbids.
strict=False : lenient coercions (zero-extend / truncate), each one recorded in ctx.coercions.
"""
import sys
import z3


class IllTyped(Exception):
    def __init__(self, msg, e=None):
        Exception.__init__(self, msg)
        self.msg = msg
        self.e = e


class Untranslatable(Exception):
    pass


def _X():
    return sys.modules['miasmx.expression.expression']


def _symcore():
    return sys.modules.get('vf.symex.core')


ASSOC = {'+': lambda p, q: p + q, '*': lambda p, q: p * q, '^': lambda p, q: p ^ q,
         '&': lambda p, q: p & q, '|': lambda p, q: p | q}


class Ctx(object):
    def __init__(self, strict=False, prefix='', flat=False, addr_bits=32):
        self.strict = strict
        self.prefix = prefix
        self.ids = {}
        self.mem = z3.Array(prefix + 'MEM', z3.BitVecSort(addr_bits), z3.BitVecSort(8))
        self.mem0 = self.mem
        self.addr_bits = addr_bits
        self.segbase = z3.Function('segbase', z3.BitVecSort(16), z3.BitVecSort(addr_bits))
        self.flat = flat
        self.coercions = []
        self.ufs = {}
        self.uf_apps = []
        self.mem_reads = []     # (address term, nbytes)

    def id(self, name, size):
        k = (name, size)
        v = self.ids.get(k)
        if v is None:
            v = self.ids[k] = z3.BitVec('%s%s:%d' % (self.prefix, name, size), size)
        return v

    def uf(self, op, widths, rw):
        k = (op, tuple(widths), rw)
        f = self.ufs.get(k)
        if f is None:
            sorts = [z3.BitVecSort(w) for w in widths] + [z3.BitVecSort(rw)]
            nm = 'uf_%s_%s_%d' % (op, '_'.join(map(str, widths)), rw)
            if widths:
                f = z3.Function(nm, *sorts)
            else:
                f = z3.BitVec(nm, rw)
            self.ufs[k] = f
        return f

    def fit(self, x, n, why, e=None):
        s = x.size()
        if s == n:
            return x
        if self.strict:
            raise IllTyped('%s: width %d where %d expected' % (why, s, n), e)
        self.coercions.append((why, s, n))
        if s > n:
            return z3.Extract(n - 1, 0, x)
        return z3.ZeroExt(n - s, x)

    def load(self, mem, addr, nbytes):
        bs = [z3.Select(mem, addr + z3.BitVecVal(i, self.addr_bits)) for i in range(nbytes)]
        r = bs[0]
        for b in bs[1:]:
            r = z3.Concat(b, r)
        return r

    def store(self, mem, addr, val, nbytes):
        for i in range(nbytes):
            mem = z3.Store(mem, addr + z3.BitVecVal(i, self.addr_bits), z3.Extract(8 * i + 7, 8 * i, val))
        return mem


def int_value(arg):
    """(width, python int | SInt) of a moduint"""
    return arg.size, arg.arg


def _conc(v):
    return isinstance(v, int)


def size_of(e):
    """static width of an expression per DESIGN section 4 (None if indeterminate)"""
    X = _X()
    if isinstance(e, X.ExprInt):
        return e.arg.size
    if isinstance(e, (X.ExprId, X.ExprMem)):
        return e.size
    if isinstance(e, X.ExprSlice):
        return e.stop - e.start
    if isinstance(e, X.ExprCompose):
        return max(x[2] for x in e.args) - min(x[1] for x in e.args)
    if isinstance(e, X.ExprCond):
        return size_of(e.src1)
    if isinstance(e, X.ExprOp):
        if not e.args:
            return None
        return size_of(e.args[0])
    return None


def tr(e, c, want=None):
    """translate expression e in context c; `want` = width hint for uninterpreted operators"""
    X = _X()
    if isinstance(e, X.ExprInt):
        n, v = int_value(e.arg)
        if isinstance(v, int):
            return z3.BitVecVal(v, n)
        core = _symcore()
        t = core.term_of(v)
        return z3.Extract(n - 1, 0, t)
    if isinstance(e, X.ExprId):
        if not isinstance(e.size, int) or e.size <= 0:
            raise IllTyped('identifier without width', e)
        return c.id(e.name, e.size)
    if isinstance(e, X.ExprMem):
        if not isinstance(e.size, int) or e.size <= 0 or e.size % 8:
            raise IllTyped('memory access of %r bits' % (e.size,), e)
        a = tr(e.arg, c)
        if c.strict and a.size() == 16 and c.addr_bits == 32:
            a = z3.ZeroExt(16, a)        # 16-bit addressing: the effective address is 16 bits wide (C11 does not fix the width of an address)
        a = c.fit(a, c.addr_bits, 'address', e)
        if e.segm is not None and e.segm is not False and not c.flat:
            sg = e.segm
            if isinstance(sg, X.Expr):
                sgt = c.fit(tr(sg, c), 16, 'segment selector', e) if not c.strict else _segsel(tr(sg, c), e)
                a = a + c.segbase(sgt)
        c.mem_reads.append((a, e.size // 8))
        return c.load(c.mem, a, e.size // 8)
    if isinstance(e, X.ExprSlice):
        x = tr(e.arg, c)
        if not (isinstance(e.start, int) and isinstance(e.stop, int)):
            raise Untranslatable('symbolic slice bounds')
        if not (0 <= e.start < e.stop <= x.size()):
            if c.strict or not (0 <= e.start < e.stop):
                raise IllTyped('slice [%d:%d] of a %d-bit value' % (e.start, e.stop, x.size()), e)
            c.coercions.append(('slice beyond operand', x.size(), e.stop))
            x = z3.ZeroExt(e.stop - x.size(), x)
        return z3.Extract(e.stop - 1, e.start, x)
    if isinstance(e, X.ExprCompose):
        if not e.args:
            raise IllTyped('empty compose', e)
        parts = sorted(e.args, key=lambda x: x[1])
        pos = parts[0][1]
        if c.strict and pos != 0:
            raise IllTyped('compose does not start at bit 0', e)
        r = None
        for (x, s, t) in parts:
            if not (isinstance(s, int) and isinstance(t, int)):
                raise Untranslatable('symbolic compose bounds')
            if t <= s:
                raise IllTyped('compose slot [%d:%d] is empty or negative' % (s, t), e)
            if s != pos:
                if c.strict or s < pos:
                    raise IllTyped('compose slots %s at bit %d' % ('overlap' if s < pos else 'leave a gap', pos), e)
                c.coercions.append(('compose gap', pos, s))
                g = z3.BitVecVal(0, s - pos)
                r = g if r is None else z3.Concat(g, r)
            v = c.fit(tr(x, c, want=t - s), t - s, 'compose slot', e)
            r = v if r is None else z3.Concat(v, r)
            pos = t
        return r
    if isinstance(e, X.ExprCond):
        cd = tr(e.cond, c)
        a = tr(e.src1, c, want)
        b = tr(e.src2, c, want)
        b = c.fit(b, a.size(), 'cond branches', e)
        return z3.If(cd != 0, a, b)
    if isinstance(e, X.ExprOp):
        return tr_op(e, c, want)
    if isinstance(e, X.ExprAff):
        raise IllTyped('assignment used as a value', e)
    raise Untranslatable('node %s' % type(e).__name__)


def _segsel(t, e):
    if t.size() == 16:
        return t
    if t.size() > 16:
        return z3.Extract(15, 0, t)
    return z3.ZeroExt(16 - t.size(), t)


def _cnt(x, n):
    """shift/rotate count: may be narrower (zero-extended) or wider (must not lose bits: saturate)"""
    s = x.size()
    if s == n:
        return x
    if s < n:
        return z3.ZeroExt(n - s, x)
    # wider count: any bit above n set => count >= 2**n >= n
    hi = z3.Extract(s - 1, n, x)
    return z3.If(hi == 0, z3.Extract(n - 1, 0, x), z3.BitVecVal((1 << n) - 1, n))


def _rot_count(cnt, n):
    """rotate count reduced modulo n, as an n-bit term"""
    w = max(cnt.size(), n, n.bit_length() + 1)
    k = z3.ZeroExt(w - cnt.size(), cnt) if w > cnt.size() else cnt
    km = z3.URem(k, z3.BitVecVal(n, w))
    return z3.Extract(n - 1, 0, km) if w > n else km


def parity_term(x):
    b = z3.Extract(7, 0, x) if x.size() >= 8 else z3.ZeroExt(8 - x.size(), x)
    p = z3.BitVecVal(1, 1)
    for i in range(8):
        p = p ^ z3.Extract(i, i, b)
    return z3.ZeroExt(x.size() - 1, p) if x.size() > 1 else p


def tr_op(e, c, want=None):
    op = e.op
    a = [tr(x, c) for x in e.args]
    if op in ASSOC:
        if len(a) < 1:
            raise IllTyped('operator %s without operands' % op, e)
        n = a[0].size()
        r = a[0]
        for x in a[1:]:
            r = ASSOC[op](r, c.fit(x, n, 'operand of ' + op, e))
        return r
    if op == '-':
        if len(a) == 1:
            return -a[0]
        if len(a) == 2:
            return a[0] - c.fit(a[1], a[0].size(), 'operand of -', e)
        raise IllTyped('n-ary minus', e)
    if op in ('<<', '>>', 'a>>', '<<<', '>>>') and len(a) == 2:
        n = a[0].size()
        k = _cnt(a[1], n)
        if op == '<<':
            return a[0] << k
        if op == '>>':
            return z3.LShR(a[0], k)
        if op == 'a>>':
            return a[0] >> k
        km = _rot_count(a[1], n)
        return z3.RotateLeft(a[0], km) if op == '<<<' else z3.RotateRight(a[0], km)
    if op == '==' and len(a) == 2:
        n = a[0].size()
        return z3.If(a[0] == c.fit(a[1], n, 'operand of ==', e), z3.BitVecVal(1, n), z3.BitVecVal(0, n))
    if op == 'parity' and len(a) == 1:
        return parity_term(a[0])
    if op == '!' and len(a) == 1:
        return ~a[0]
    r = _x86_helper(op, a, c, e)
    if r is not None:
        return r
    # uninterpreted
    widths = [x.size() for x in a]
    rw = want if want is not None else (widths[0] if widths else None)
    if rw is None:
        raise IllTyped('operator %r has no determinate width' % op, e)
    f = c.uf(op, widths, rw)
    t = f(*a) if widths else f
    c.uf_apps.append((op, a))
    return t


def _x86_helper(op, a, c, e):
    import re
    m = re.match(r'^(u|i)mul(08|16|32)(_lo|_hi)?$', op)
    if m and len(a) == 2:
        sg, n, part = m.group(1), int(m.group(2)), m.group(3)
        if n == 8:
            # 16-bit product of the low bytes
            x = z3.Extract(7, 0, a[0])
            y = z3.Extract(7, 0, c.fit(a[1], a[0].size(), 'operand of ' + op, e))
            ext = z3.SignExt if sg == 'i' else z3.ZeroExt
            p = ext(8, x) * ext(8, y)
            w = a[0].size()
            return p if w == 16 else (z3.ZeroExt(w - 16, p) if w > 16 else z3.Extract(w - 1, 0, p))
        x = c.fit(a[0], n, 'operand of ' + op, e)
        y = c.fit(a[1], n, 'operand of ' + op, e)
        ext = z3.SignExt if sg == 'i' else z3.ZeroExt
        p = ext(n, x) * ext(n, y)
        return z3.Extract(n - 1, 0, p) if part == '_lo' else z3.Extract(2 * n - 1, n, p)
    m = re.match(r'^(i?)(div|rem)(8|16|32)$', op)
    if m and len(a) == 3:
        sg, what, n = m.group(1), m.group(2), int(m.group(3))
        hi = c.fit(a[0], n, 'operand of ' + op, e)
        lo = c.fit(a[1], n, 'operand of ' + op, e)
        d = c.fit(a[2], n, 'operand of ' + op, e)
        big = z3.Concat(hi, lo)
        if sg:
            dd = z3.SignExt(n, d)
            q = big / dd            # bvsdiv: truncation toward zero, as idiv
            r = z3.SRem(big, dd)
        else:
            dd = z3.ZeroExt(n, d)
            q = z3.UDiv(big, dd)
            r = z3.URem(big, dd)
        return z3.Extract(n - 1, 0, q if what == 'div' else r)
    if op in ('bsf', 'bsr') and len(a) == 1:
        # the lifter's unary form: index of the lowest/highest set bit; unconstrained when the source is 0
        n = a[0].size()
        r = c.uf(op + '_undef', [], n)
        rng = range(n - 1, -1, -1) if op == 'bsf' else range(n)
        for i in rng:
            r = z3.If(z3.Extract(i, i, a[0]) == 1, z3.BitVecVal(i, n), r)
        return r
    if op in ('bsf', 'bsr') and len(a) == 2:
        # bsf/bsr(default, src): index of lowest/highest set bit of src; default when src == 0
        n = a[1].size()
        src = a[1]
        dflt = c.fit(a[0], n, 'operand of ' + op, e)
        r = dflt
        rng = range(n - 1, -1, -1) if op == 'bsf' else range(n)
        for i in rng:
            r = z3.If(z3.Extract(i, i, src) == 1, z3.BitVecVal(i, n), r)
        return r
    if op in ('<<<c_rez', '<<<c_cf', '>>>c_rez', '>>>c_cf') and len(a) == 3:
        n = a[0].size()
        cnt = a[1]
        cf = a[2]
        w = n + 1
        cfb = z3.Extract(0, 0, cf)
        k5 = z3.Extract(4, 0, cnt) if cnt.size() >= 5 else z3.ZeroExt(5 - cnt.size(), cnt)
        ww = max(w, 8)
        kk = z3.URem(z3.ZeroExt(ww - 5, k5), z3.BitVecVal(w, ww))
        k = z3.Extract(w - 1, 0, kk) if ww > w else kk
        if op.startswith('<<<'):
            v = z3.Concat(cfb, a[0])          # CF is the bit above the msb
            rv = z3.RotateLeft(v, k)
        else:
            v = z3.Concat(cfb, a[0])
            rv = z3.RotateRight(v, k)
        if op.endswith('_rez'):
            return z3.Extract(n - 1, 0, rv)
        return z3.ZeroExt(n - 1, z3.Extract(n, n, rv)) if n > 1 else z3.Extract(n, n, rv)
    return None


# -------------------------------------------------------------------------------------------------
# assignment lists
# -------------------------------------------------------------------------------------------------
class Post(object):
    """post-state of a parallel assignment list"""
    def __init__(self):
        self.regs = {}      # (name,size) -> term
        self.mem = None
        self.stores = []    # (addr, nbytes, value)
        self.notes = []


def apply_affs(affs, c, strict_dst=True):
    """parallel assignment: all sources read the pre-state of c"""
    X = _X()
    post = Post()
    mem = c.mem
    for a in affs:
        if not isinstance(a, X.ExprAff):
            raise IllTyped('element is not an assignment', a)
        dst = a.dst
        if isinstance(dst, X.ExprId):
            v = tr(a.src, c, want=dst.size)
            if v.size() != dst.size:
                if dst.size == 1 and v.size() > 1 and not c.strict:
                    c.coercions.append(('flag <- wide', v.size(), 1))
                    v = z3.Extract(0, 0, v)
                else:
                    v = c.fit(v, dst.size, 'source of %s' % dst.name, a)
            k = (dst.name, dst.size)
            if k in post.regs:
                post.notes.append('double assignment to %s' % dst.name)
            post.regs[k] = v
        elif isinstance(dst, X.ExprMem):
            ad = c.fit(tr(dst.arg, c), c.addr_bits, 'address', dst)
            if dst.segm is not None and dst.segm is not False and not c.flat and isinstance(dst.segm, X.Expr):
                ad = ad + c.segbase(_segsel(tr(dst.segm, c), dst))
            v = c.fit(tr(a.src, c, want=dst.size), dst.size, 'source of store', a)
            post.stores.append((ad, dst.size // 8, v))
        else:
            raise IllTyped('destination is neither identifier nor memory', a)
    for ad, nb, v in post.stores:
        mem = c.store(mem, ad, v, nb)
    post.mem = mem
    return post
