#!/bin/sh
# Idempotent offline setup: overlay venv on the repository's own interpreter + z3 (and cvc5) wheels.
set -e
cd "$(dirname "$0")"
V=/verif/.venv
if [ ! -x "$V/bin/python" ] || ! "$V/bin/python" -c 'import z3' 2>/dev/null; then
  rm -rf "$V"
  /venv/bin/python -m venv "$V"
  PIP_NO_INDEX=1 "$V/bin/pip" install -q --no-index --find-links /opt/veriftools/wheels z3-solver jsonschema >/dev/null 2>&1 || \
  PIP_NO_INDEX=1 "$V/bin/pip" install -q --no-index --find-links /opt/veriftools/wheels z3-solver
  PIP_NO_INDEX=1 "$V/bin/pip" install -q --no-index --find-links /opt/veriftools/wheels cvc5 >/dev/null 2>&1 || true
fi
mkdir -p /verif/.cache/tmp /verif/evidence /verif/replays
"$V/bin/python" -c 'import z3; print("setup ok: z3", z3.get_version_string())'
