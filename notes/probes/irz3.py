import z3
from miasmx.expression.expression import *
def bv(n, v): return z3.BitVecVal(v, n)
class Ctx:
    def __init__(self):
        self.ids={}
        self.mem=z3.Array('MEM', z3.BitVecSort(32), z3.BitVecSort(8))
    def id(self,e):
        k=(e.name,e.size)
        if k not in self.ids: self.ids[k]=z3.BitVec('%s_%d'%k, e.size)
        return self.ids[k]
def fit(x, n):
    s=x.size()
    if s==n: return x
    if s>n: return z3.Extract(n-1,0,x)
    return z3.ZeroExt(n-s,x)
def tz(e,c):
    if isinstance(e,ExprInt): return bv(e.get_size(), int(e.arg))
    if isinstance(e,ExprId): return c.id(e)
    if isinstance(e,ExprMem):
        a=fit(tz(e.arg,c),32)
        bs=[z3.Select(c.mem, a+i) for i in range(e.size//8)]
        r=bs[0]
        for b in bs[1:]: r=z3.Concat(b,r)
        return r
    if isinstance(e,ExprSlice):
        return z3.Extract(e.stop-1,e.start,tz(e.arg,c))
    if isinstance(e,ExprCompose):
        parts=sorted(e.args,key=lambda x:x[1])
        r=None
        for (x,s,t) in parts:
            v=fit(tz(x,c),t-s)
            r = v if r is None else z3.Concat(v,r)
        return r
    if isinstance(e,ExprCond):
        cd=tz(e.cond,c)
        return z3.If(cd!=0, tz(e.src1,c), tz(e.src2,c))
    if isinstance(e,ExprOp):
        a=[tz(x,c) for x in e.args]
        n=a[0].size()
        op=e.op
        if op in ('+','*','^','&','|'):
            r=a[0]
            for x in a[1:]:
                x=fit(x,n)
                r={'+':lambda p,q:p+q,'*':lambda p,q:p*q,'^':lambda p,q:p^q,'&':lambda p,q:p&q,'|':lambda p,q:p|q}[op](r,x)
            return r
        if op=='-':
            if len(a)==1: return -a[0]
            return a[0]-fit(a[1],n)
        if op=='<<': return a[0]<<fit(a[1],n)
        if op=='>>': return z3.LShR(a[0],fit(a[1],n))
        if op=='a>>': return a[0]>>fit(a[1],n)
        if op=='<<<': return z3.RotateLeft(a[0], z3.URem(fit(a[1],n), bv(n,n)))
        if op=='>>>': return z3.RotateRight(a[0], z3.URem(fit(a[1],n), bv(n,n)))
        if op=='==': return z3.If(a[0]==fit(a[1],n), bv(n,1), bv(n,0))
        if op=='parity':
            x=z3.Extract(7,0,a[0]); p=z3.BitVecVal(1,1)
            for i in range(8): p=p^z3.Extract(i,i,x)
            return z3.ZeroExt(n-1,p)
        raise NotImplementedError(op)
    raise NotImplementedError(type(e))
