import faulthandler, sys, time
faulthandler.dump_traceback_later(280, exit=True)
import z3, symex
from symex import *
symex.W = 40
import miasmx.arch.ppc_arch as ppc
from miasmx.arch.ppc_arch import tab_mn, ppc_mn
print(len(tab_mn), 'classes')
def fn(eng):
    w = SInt(z3.BitVec('w', symex.W)); eng.s.add(z3.ULT(w.t, 1<<32))
    cls = [x for x in tab_mn if x.check(w)]
    if len(cls) != 1:
        return ('NCLS', [c.__name__ for c in cls], eng.s.model() if eng.check()=='sat' else None)
    c = cls[0]
    i = c.__new__(c); i.__init__(w, 0)
    b = i.bin()
    r = eng.check(lift(b) != w.t)
    if r == 'sat':
        return ('REENC', c.__name__, hex(eng.s.model()[z3.BitVec('w',symex.W)].as_long()))
    return (r, c.__name__)
eng = Engine(); t0=time.time()
res = eng.explore(fn)
print(eng.stats, time.time()-t0)
from collections import Counter
print(Counter(r[0] for p,r in res))
seen=set()
for p,r in res:
    if r[0] in ('NCLS','REENC','ABORT','unknown'):
        k=str(r[:2])
        if k in seen: continue
        seen.add(k); print(r)
