import z3, builtins, time
W = 80
class Abort(BaseException): pass
class Ctx:
    cur = None
def bvv(v): return z3.BitVecVal(v, W)
def lift(x):
    if isinstance(x, SInt): return x.t
    if isinstance(x, bool): return bvv(int(x))
    if isinstance(x, builtins.int): return bvv(x)
    if isinstance(x, float) and x.is_integer(): return bvv(builtins.int(x))
    raise TypeError('lift')
class SBool:
    def __init__(self, t): self.t = t
    def __bool__(self): return Ctx.cur.branch(self.t)
    def __invert__(self): return SBool(z3.Not(self.t))
class SInt:
    __slots__=('t',)
    def __init__(self, t): self.t = t
    def _b(self, o, f):
        try: return SInt(z3.simplify(f(self.t, lift(o))))
        except TypeError: return NotImplemented
    def _rb(self, o, f):
        try: return SInt(z3.simplify(f(lift(o), self.t)))
        except TypeError: return NotImplemented
    def __add__(s,o): return s._b(o, lambda a,b:a+b)
    def __radd__(s,o): return s._rb(o, lambda a,b:a+b)
    def __sub__(s,o): return s._b(o, lambda a,b:a-b)
    def __rsub__(s,o): return s._rb(o, lambda a,b:a-b)
    def __mul__(s,o): return s._b(o, lambda a,b:a*b)
    def __rmul__(s,o): return s._rb(o, lambda a,b:a*b)
    def __and__(s,o): return s._b(o, lambda a,b:a&b)
    def __rand__(s,o): return s._rb(o, lambda a,b:a&b)
    def __or__(s,o): return s._b(o, lambda a,b:a|b)
    def __ror__(s,o): return s._rb(o, lambda a,b:a|b)
    def __xor__(s,o): return s._b(o, lambda a,b:a^b)
    def __rxor__(s,o): return s._rb(o, lambda a,b:a^b)
    def __lshift__(s,o): return s._b(o, lambda a,b:a<<b)
    def __rlshift__(s,o): return s._rb(o, lambda a,b:a<<b)
    def __rshift__(s,o): return s._b(o, lambda a,b:a>>b)   # arithmetic (python ints)
    def __rrshift__(s,o): return s._rb(o, lambda a,b:a>>b)
    def __mod__(s,o):
        # python mod: sign of divisor; only constant positive power-of-two fast path + general
        if isinstance(o, builtins.int) and o>0 and (o&(o-1))==0:
            return SInt(z3.simplify(s.t & bvv(o-1)))
        return s._b(o, lambda a,b: z3.SMod(a,b))
    def __rmod__(s,o): return s._rb(o, lambda a,b: z3.SMod(a,b))
    def __neg__(s): return SInt(z3.simplify(-s.t))
    def __invert__(s): return SInt(z3.simplify(~s.t))
    def __rpow__(s, o):
        if o == 2: return SInt(z3.simplify(bvv(1) << s.t))
        raise NotImplementedError
    def _c(s,o,f):
        try: return SBool(z3.simplify(f(s.t, lift(o))))
        except TypeError: return NotImplemented
    def __eq__(s,o): return s._c(o, lambda a,b:a==b)
    def __ne__(s,o): return s._c(o, lambda a,b:a!=b)
    def __lt__(s,o): return s._c(o, lambda a,b:a<b)
    def __le__(s,o): return s._c(o, lambda a,b:a<=b)
    def __gt__(s,o): return s._c(o, lambda a,b:a>b)
    def __ge__(s,o): return s._c(o, lambda a,b:a>=b)
    def __bool__(s): return Ctx.cur.branch(s.t != 0)
    def __hash__(s): return 0
    def __index__(s): return Ctx.cur.concretize(s.t)
    def __repr__(s): return 'SInt(%s)' % s.t
def sym_int(x, *a):
    if isinstance(x, SInt) and not a: return x
    return builtins.int(x, *a)
class Engine:
    def __init__(self, timeout_ms=20000):
        self.s = z3.Solver(); self.s.set('timeout', timeout_ms)
        self.stats = dict(paths=0, checks=0, solver_s=0.0, unknown=0)
    def check(self, *extra):
        t=time.time(); r = self.s.check(*extra); self.stats['solver_s'] += time.time()-t; self.stats['checks']+=1
        r = str(r)
        if r=='unknown': self.stats['unknown']+=1
        return r
    def branch(self, cond):
        cond = z3.simplify(cond)
        if z3.is_true(cond): return True
        if z3.is_false(cond): return False
        i = self.pos; self.pos += 1
        if i < len(self.prefix):
            d = self.prefix[i]
        else:
            ct = self.check(cond); cf = self.check(z3.Not(cond))
            if ct=='sat' and cf=='sat':
                d = True; self.work.append(self.prefix[:i] + [False]); 
            elif ct=='sat': d = True
            elif cf=='sat': d = False
            else: raise Abort('infeasible/unknown')
            self.prefix.append(d)
        self.s.add(cond if d else z3.Not(cond))
        return d
    def concretize(self, t):
        t = z3.simplify(t)
        if z3.is_bv_value(t): return t.as_signed_long()
        i = self.pos; self.pos += 1
        if i < len(self.prefix):
            v = self.prefix[i][1]
        else:
            vals=[]; self.s.push()
            while len(vals) < 300:
                if self.check()!='sat': break
                v = self.s.model().eval(t, model_completion=True)
                vals.append(v); self.s.add(t != v)
            self.s.pop()
            if not vals or len(vals)>=300: raise Abort('conc %d'%len(vals))
            for v in vals[1:]: self.work.append(self.prefix[:i] + [('c', v)])
            v = vals[0]; self.prefix.append(('c', v))
        self.s.add(t == v)
        return v.as_signed_long()
    def explore(self, fn, assume=None):
        self.work=[[]]; results=[]
        while self.work:
            self.prefix = self.work.pop(); self.pos = 0
            self.s.push(); Ctx.cur = self
            try:
                if assume is not None: self.s.add(assume)
                r = fn(self)
                results.append((list(self.prefix), r))
            except Abort as a:
                results.append((list(self.prefix), ('ABORT', a)))
            finally:
                self.s.pop(); self.stats['paths']+=1
        return results
