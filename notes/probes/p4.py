import faulthandler, sys, time
faulthandler.dump_traceback_later(100, exit=True)
import z3, symex
from symex import *
symex.W = 72
import instr
import miasmx.tools.modint as modint
import miasmx.core.parse_ad as pad
import miasmx.arch.ia32_arch as arch
from ply.lex import LexToken
class TokLexer:
    def __init__(self, toks): self.toks = list(toks); self.i = 0; self.lineno=1; self.lexpos=0
    def input(self, s): pass
    def token(self):
        if self.i >= len(self.toks): return None
        ty, v = self.toks[self.i]; self.i += 1
        t = LexToken(); t.type = ty; t.value = v; t.lineno = 1; t.lexpos = self.i
        return t
def parse_tokens(toks):
    l = pad.parser_intel.parse("<tokens>", lexer=TokLexer(toks))
    from miasmx.arch.ia32_reg import x86_afs
    if not x86_afs.ad in l: l[x86_afs.ad] = False
    else: l[x86_afs.size] = l[x86_afs.ad]
    if not x86_afs.size in l: l[x86_afs.size] = x86_afs.u32
    return l
def fn(eng):
    n = SInt(z3.BitVec('n', symex.W)); eng.s.add(z3.ULT(n.t, 1<<32))
    k = SInt(z3.BitVec('k', symex.W)); eng.s.add(z3.ULT(k.t, 1<<32))
    # mov eax, DWORD PTR [ebx + n]   vs   n[ebx]
    a1 = parse_tokens([('DWORD','DWORD'),('PTR','PTR'),('LBRA','['),('REGISTER','ebx'),('PLUS','+'),('NUMBER',n),('RBRA',']')])
    a2 = parse_tokens([('DWORD','DWORD'),('PTR','PTR'),('NUMBER',n),('LBRA','['),('REGISTER','ebx'),('RBRA',']')])
    a0 = parse_tokens([('REGISTER','eax')])
    x = arch.x86_mn()
    out = []
    for a in (a1, a2):
        co = x.asm_candidates([], 'mov', [dict(a0), dict(a)])
        out.append([(c[0].name, c[2]) for c in co])
    return out
eng = Engine(); t0=time.time()
res = eng.explore(fn)
print(eng.stats, time.time()-t0)
for p, r in res:
    print(len(p), r if r[0]=='ABORT' else [ [ (nm, o[0], {k:str(v) for k,v in o[1].items()}) for nm,o in lst] for lst in r])
