import faulthandler, sys, time
faulthandler.dump_traceback_later(170, exit=True)
import z3, symex
from symex import *
symex.W = 72
import instr2
from instr2 import SBytes
import miasmx.arch.ia32_arch as arch
from collections import Counter
def mk(eng, opc, n):
    bs = list(opc)
    for i in range(n):
        b = SInt(z3.BitVec('b%d'%i, symex.W)); eng.s.add(z3.ULT(b.t, 256)); bs.append(b)
    return SBytes(bs)
def fn_for(opc):
    def fn(eng):
        data = mk(eng, opc, 10)
        i = arch.x86mnemo.dis(data)
        if i is None: return ('NONE',)
        return ('OK', i.m.name, i.l, len(i.arg))
    return fn
for opc in ([0x81], [0x0f,0xba], [0xe8], [0x8d]):
    eng = Engine(); t0=time.time()
    try:
        res = eng.explore(fn_for(opc))
    except Exception as e:
        import traceback; traceback.print_exc(); continue
    c = Counter((r[0],)+tuple(r[1:3]) if r[0]=='OK' else (r[0], str(r[1:])[:80]) for p,r in res)
    print(opc, eng.stats, '%.1fs'%(time.time()-t0), len(c), 'classes', list(c.items())[:6])
