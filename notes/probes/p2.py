import time, itertools, z3
from irz3 import *
from miasmx.expression.expression_helper import expr_simp
a=ExprId('a'); b=ExprId('b')
def I(v): return ExprInt32(v)
ops2=['+','*','^','&','|','-','<<','>>','a>>','<<<','>>>','==']
leaves=[a,b,I(0),I(1),I(0xffffffff),I(0x100),I(8),I(32)]
t0=time.time(); n=0; bad=[]
def chk(e):
    global n
    c=Ctx()
    try:
        s=expr_simp(e.copy())
    except Exception as ex:
        bad.append((str(e),'EXC',repr(ex))); return
    try:
        x=tz(e,c); y=tz(s,c)
    except NotImplementedError as ex:
        return
    n+=1
    if x.size()!=y.size():
        bad.append((str(e),'SIZE',str(s))); return
    sol=z3.Solver(); sol.set('timeout',10000); sol.add(x!=y)
    r=sol.check()
    if str(r)!='unsat': bad.append((str(e),str(r),str(s), str(sol.model()) if str(r)=='sat' else ''))
for op in ops2:
    for l in leaves:
        for r in leaves:
            chk(ExprOp(op,l,r))
for op1 in ops2:
  for op2 in ops2:
    for l in [a,I(0x100),I(8)]:
      for m in [b,I(0xff),I(0x100)]:
        for r in [a,I(8),I(0)]:
            chk(ExprOp(op1, ExprOp(op2,l,m), r))
print(n, 'queries', time.time()-t0,'s', len(bad),'bad')
for x in bad[:40]: print(x)
