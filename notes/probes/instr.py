import ast, sys, importlib.abc, importlib.machinery, importlib.util, builtins
import symex
from symex import SInt
def _moduint():
    return sys.modules.get('miasmx.tools.modint')
def sym_int(x=0, *a):
    if not a:
        if isinstance(x, SInt): return x
        m = _moduint()
        if m is not None and isinstance(x, m.moduint) and isinstance(x.arg, SInt): return x.arg
    return builtins.int(x, *a)
def sym_type(x):
    if isinstance(x, SInt): return builtins.int
    return builtins.type(x)
class T(ast.NodeTransformer):
    def visit_Call(self, node):
        self.generic_visit(node)
        if isinstance(node.func, ast.Name) and node.func.id == 'int':
            node.func = ast.Name(id='__sym_int__', ctx=ast.Load())
        elif isinstance(node.func, ast.Name) and node.func.id == 'type' and len(node.args)==1:
            node.func = ast.Name(id='__sym_type__', ctx=ast.Load())
        return node
class Loader(importlib.abc.SourceLoader):
    def __init__(self, fullname, path): self.fullname=fullname; self.path=path
    def get_filename(self, fullname): return self.path
    def get_data(self, path): return open(path,'rb').read()
    def source_to_code(self, data, path, *, _optimize=-1):
        tree = ast.parse(data, path)
        tree = T().visit(tree); ast.fix_missing_locations(tree)
        return compile(tree, path, 'exec', dont_inherit=True)
    def exec_module(self, module):
        module.__dict__['__sym_int__'] = sym_int
        module.__dict__['__sym_type__'] = sym_type
        super().exec_module(module)
class Finder(importlib.abc.MetaPathFinder):
    def find_spec(self, fullname, path, target=None):
        if not (fullname=='miasmx' or fullname.startswith('miasmx.')): return None
        spec = importlib.machinery.PathFinder.find_spec(fullname, path)
        if spec is None or not spec.origin or not spec.origin.endswith('.py'): return spec
        spec.loader = Loader(fullname, spec.origin)
        return spec
sys.dont_write_bytecode = True
sys.meta_path.insert(0, Finder())
