import z3, time, builtins
import symex
from symex import *
import miasmx.tools.modint as modint
import miasmx.expression.expression_helper as eh
import miasmx.expression.expression as ex
modint.int = sym_int; eh.int = sym_int; ex.int = sym_int
from miasmx.expression.expression import *
from miasmx.expression.expression_helper import expr_simp
from irz3 import Ctx as ICtx, tz
import irz3
# teach irz3 about symbolic ExprInt
_old = irz3.tz
def tz2(e,c):
    if isinstance(e, ExprInt) and isinstance(e.arg.arg, SInt):
        return z3.Extract(e.get_size()-1, 0, e.arg.arg.t)
    return _old(e,c)
irz3.tz = tz2
A = ExprId('a')
def harness(shape):
    def fn(eng):
        m = SInt(z3.BitVec('m', W)); s = SInt(z3.BitVec('s', W))
        eng.s.add(z3.ULT(m.t, 1<<32), z3.ULT(s.t, 1<<32))
        e = shape(uint32(m), uint32(s))
        r = expr_simp(e)
        c = ICtx()
        x = irz3.tz(e, c); y = irz3.tz(r, c)
        if x.size()!=y.size(): return ('SIZE', str(r))
        res = eng.check(x != y)
        if res == 'sat':
            mdl = eng.s.model()
            return ('CEX', {str(d): mdl[d] for d in mdl.decls()})
        return (res, None)
    return fn
shapes = {
 'and_shr': lambda m,s: ExprOp('>>', ExprOp('&', A, ExprInt(m)), ExprInt(s)),
 'sub': lambda m,s: ExprOp('-', A, ExprInt(m)),
 'add2': lambda m,s: ExprOp('+', ExprOp('+', A, ExprInt(m)), ExprInt(s)),
 'shl_cc': lambda m,s: ExprOp('<<', ExprInt(m), ExprInt(s)),
 'rot2': lambda m,s: ExprOp('>>>', ExprOp('<<<', A, ExprInt(m)), ExprInt(s)),
 'xor3': lambda m,s: ExprOp('^', ExprInt(m), A, ExprInt(s), A),
 'mul2': lambda m,s: ExprOp('*', ExprInt(m), ExprOp('*', A, ExprInt(s))),
 'eqor': lambda m,s: ExprOp('==', ExprOp('|', A, ExprInt(m)), ExprInt(s)),
 'cond': lambda m,s: ExprCond(ExprInt(m), A, ExprInt(s)),
 'slice': lambda m,s: ExprSlice(ExprInt(m), 8, 16),
 'compose': lambda m,s: ExprCompose([(ExprSlice(ExprInt(m),0,16),0,16),(ExprSlice(ExprInt(s),0,16),16,32)]),
}
for name, sh in shapes.items():
    eng = Engine(); t0=time.time()
    try:
        res = eng.explore(harness(sh))
    except Exception as e:
        import traceback; traceback.print_exc(); print(name, 'EXC', repr(e)); continue
    summary = {}
    for p, r in res: summary[str(r[0])] = summary.get(str(r[0]),0)+1
    print(name, summary, eng.stats, '%.2fs'%(time.time()-t0))
    for p, r in res:
        if r[0] in ('CEX','SIZE','ABORT'): print('   ', p, r); break
