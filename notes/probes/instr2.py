import ast, sys, importlib.abc, importlib.machinery, builtins, struct as _struct
import z3, symex
from symex import SInt, SBool, Ctx
import instr
class SBytes:
    """sequence of byte terms (python ints or SInt), with symbolic-length support omitted in probe"""
    def __init__(self, items): self.items = list(items)
    def __len__(self): return len(self.items)
    def __getitem__(self, i):
        if isinstance(i, slice): return SBytes(self.items[i])
        return self.items[i]
    def upper(self): raise NotImplementedError
def sym_ord(x):
    if isinstance(x, SBytes):
        assert len(x)==1; return x.items[0]
    return builtins.ord(x)
class SymStruct:
    calcsize = staticmethod(_struct.calcsize)
    pack = staticmethod(_struct.pack)
    @staticmethod
    def unpack(fmt, data):
        if not isinstance(data, SBytes): return _struct.unpack(fmt, data)
        n = _struct.calcsize(fmt); assert len(data)==n and len(fmt)==1, (fmt, len(data))
        W = symex.W
        t = z3.BitVecVal(0, W)
        for k, b in enumerate(data.items):
            bt = b.t if isinstance(b, SInt) else z3.BitVecVal(b, W)
            t = t | (bt << (8*k))
        if fmt in 'bhi':
            t = z3.SignExt(W-8*n, z3.Extract(8*n-1, 0, t))
        return (SInt(z3.simplify(t)),)
class T2(instr.T):
    def visit_Call(self, node):
        node = super().visit_Call(node)
        if isinstance(node.func, ast.Name) and node.func.id == 'ord':
            node.func = ast.Name(id='__sym_ord__', ctx=ast.Load())
        return node
    def visit_Attribute(self, node):
        self.generic_visit(node)
        if isinstance(node.value, ast.Name) and node.value.id == 'struct' and isinstance(node.ctx, ast.Load):
            node.value = ast.Name(id='__sym_struct__', ctx=ast.Load())
        return node
instr.T = T2
_old_exec = instr.Loader.exec_module
def exec_module(self, module):
    module.__dict__['__sym_ord__'] = sym_ord
    module.__dict__['__sym_struct__'] = SymStruct
    _old_exec(self, module)
instr.Loader.exec_module = exec_module
