
# replay of a C14 counterexample on the real miasmx.tools.modint (exit 1 = property violated)
import sys, operator as op
import miasmx.tools.modint as M
D = {'kind': 'un', 'ca': 'int32', 'cb': None, 'op': 'abs', 'vals': {'va': -2147483648}, 'what': 'min'}
SIZES = dict(uint1=1, uint8=8, uint16=16, uint32=32, uint64=64, uint128=128, int8=8, int16=16, int32=32, int64=64, int128=128)
PYOP = {'+': op.add, '-': op.sub, '*': op.mul, '&': op.and_, '|': op.or_, '^': op.xor, '<<': op.lshift,
        '>>': op.rshift, '%': op.mod, '==': op.eq, '!=': op.ne, '<': op.lt, '<=': op.le, '>': op.gt, '>=': op.ge}
def red(v, cn):
    n = SIZES[cn]; v %= 1 << n
    if cn.startswith('int') and v >= 1 << (n - 1): v -= 1 << n
    return v
ca, cb, o, kind = D['ca'], D['cb'], D['op'], D['kind']
va = D['vals']['va']; vb = D['vals'].get('vb', 0)
A = getattr(M, ca); a = A(va); x = red(va, ca)
bad = False
try:
    if kind == 'un':
        if o == 'ctor': bad = a.arg != x or A(a).arg != x
        elif o == '~': r = ~a; bad = type(r) is not A or r.arg != red(~x, ca)
        elif o == 'neg': r = -a; bad = type(r) is not A or r.arg != red(-x, ca)
        elif o == 'abs': r = abs(a); bad = int(r) != red(abs(x), ca)
        elif o == 'int': bad = int(a) != x
        elif o == 'hash': b = A(vb); bad = (red(vb, ca) == x) and hash(a) != hash(b)
        elif o.startswith('pow'): k = int(o[3:]); r = a ** k; bad = type(r) is not A or r.arg != red(x ** k, ca)
        elif o == 'rpow2': bad = (2 ** a) != 2 ** x
    else:
        if cb == 'int': b = vb; y = vb; cbn = None
        else: b = getattr(M, cb)(vb); y = red(vb, cb); cbn = cb
        if kind == 'refl': r = PYOP[o](b, a); p, q = y, x
        else: r = PYOP[o](a, b); p, q = x, y
        if o == 'hash' or D.get('what') == 'hash':
            bad = (x == y) and hash(a) != hash(b)
        elif o in ('==', '!=', '<', '<=', '>', '>='):
            bad = (r is not PYOP[o](p, q))
        else:
            rc = type(r).__name__
            na, nb = SIZES[ca], SIZES.get(cb, 0)
            if cbn is None: okc = rc == ca
            elif na > nb: okc = rc == ca
            elif nb > na: okc = rc == cbn
            else: okc = rc in (ca, cbn)
            bad = (not okc) or r.arg != red(PYOP[o](p, q), rc)
except Exception as e:
    print('exception', type(e).__name__, e); bad = True
print('C14 replay', D, '->', 'VIOLATED' if bad else 'holds')
sys.exit(1 if bad else 0)
